"""Layer G: Verus on GENERATED code. For schemas whose inner functions are closure-free, the code the tree's generator
emits (rustfmt-ed, otherwise unmodified) is put under contracts next to the runtime unit and verified for ALL inputs
and ALL behaviours of the abstract operands (uninterpreted spec functions). What it proves counts as proved; when the
proof cannot be established on a tree (the template's text changed, an obligation fails) the schema's bounded
enumeration is re-run at the thorough bound and decides; the lost proof is reported in the evidence, never as an alarm."""
import os, sys, json
import layer_r, layer_t
sys.path.insert(0, os.path.join(os.path.dirname(os.path.abspath(__file__)), '..', 'extract'))
import gen_runtime
from extract import LostAnchor

G_SCHEMAS = ['closure_plus', 'g_lookahead', 'char_rule', 'optional_multi', 'closure_star', 'nest_opt_closure_opt', 'seq_rebind', 'nest_closure_in_closure', 'include_chain', 'include_chain__inl', 'term_range_char_eoi', 'nest_lookahead_closure', 'lookahead_nested', 'boxed', 'box_merge', 'seq3', 'include_diamond', 'include_diamond__inl', 'include_boxed', 'include_boxed__inl', 'char_rule_single', 'optional_field_reused', 'closure_field_named_result', 'extern_noskip_blanks', 'optional_nested', 'lookahead', 'check_position', 'position_string', 'check2_plain', 'position_skip', 'ws_lookahead_tail']

def schemas_for(ctx, prop):
    """the units that carry an obligation of the property (read from the contract files)"""
    import extract as _ex
    out = []
    for schema in G_SCHEMAS:
        try:
            cs = _ex.parse_contracts(os.path.join(ctx.root, 'contracts', 'g_%s.contracts' % schema))
        except Exception:
            continue
        if any(prop in cl.props and cl.kind != 'requires' for c in cs.values() for cl in c.clauses + [x for l in c.loops.values() for x in l]):
            out.append(schema)
    return out

def run_g(ctx, prop=None):
    res = ctx.cache.setdefault('G', {})
    wanted = [s for s in (schemas_for(ctx, prop) if prop else G_SCHEMAS) if s not in res]
    if not wanted: return res
    T = layer_t.prepare(ctx)
    def one(schema):
        entry = {'schema': schema, 'status': 'not established', 'why': None, 'failures': [], 'index': {'clauses': []}}
        if T['errors'] or schema in T.get('excluded', []) or T['status'].get(schema, {}).get('driver') != 'OK':
            entry['why'] = 'generated code of the schema is not available: %s' % (T['errors'][:1] or T['status'].get(schema))
            return entry
        try:
            path, index = gen_runtime.generate_g(ctx.repo, os.path.join(ctx.scratch, 'G_' + schema), schema, os.path.join(T['gen'], schema + '.rs'))
        except LostAnchor as e:
            entry['why'] = 'lost anchor: %s' % e
            return entry
        except Exception as e:
            entry['why'] = 'extraction failed: %r' % e
            return entry
        vr = layer_r.run_verus(path, extra=['--rlimit', '40'])   # the nested loops need ~8 of the default 10 units: leave a margin
        an = layer_r.analyse('runtime', path, index, vr)     # default property of unlabelled safety failures: C04
        entry['index'] = index
        entry['verus_cmd'] = vr.get('cmd'); entry['wall_s'] = vr.get('wall_s')
        entry['failures'] = an['failures']
        entry['fn_status'] = an.get('fn_status', {})
        if an['inconclusive']:
            entry['why'] = '; '.join(an['inconclusive'])[:400]
        elif an['failures']:
            entry['why'] = 'obligations not discharged: %s' % sorted({f.get('label') for f in an['failures']})
        elif index.get('unreachable'):
            entry['why'] = 'functions fell out of reach: %s' % index['unreachable']
        else:
            # vacuity guard: `ensures false` on the last contracted generated function must fail
            try:
                keys = [k for k in index.get('contract_keys', [])]
                ck = tuple(keys[-1])
                cpath, cindex = gen_runtime.generate_g(ctx.repo, os.path.join(ctx.scratch, 'G_' + schema + '_canary'), schema, os.path.join(T['gen'], schema + '.rs'), canary=ck)
                cvr = layer_r.run_verus(cpath, extra=['--rlimit', '40'])
                can = layer_r.analyse('runtime', cpath, cindex, cvr)
                failed = any(f.get('label') == 'CANARY' for f in can['failures'])
                entry['canary'] = {'function': '::'.join(ck[1:]), 'failed_as_required': bool(failed)}
                if not failed:
                    entry['why'] = 'vacuity canary (ensures false on %s) did not fail' % '::'.join(ck[1:])
                    return entry
            except Exception as e:
                entry['why'] = 'vacuity canary could not be run: %r' % e
                return entry
            entry['status'] = 'proved'
        return entry
    import concurrent.futures
    def guarded(schema):
        return one(schema)
    with concurrent.futures.ThreadPoolExecutor(max_workers=8) as ex:
        futs = {schema: ex.submit(guarded, schema) for schema in wanted}
        for schema, f in futs.items():
            res[schema] = f.result()
    return res

def g_part(ctx, prop):
    out = {'obligations': 0, 'discharged': 0, 'samples': [], 'functions': [], 'units': [], 'notes': [], 'escalate': [], 'log': []}
    mine_schemas = schemas_for(ctx, prop)
    for schema, e in run_g(ctx, prop).items():
        if schema not in mine_schemas: continue
        mine = [c for c in e['index'].get('clauses', []) if prop in c['props']]
        import extract as _ex
        expected = 0
        try:
            cs = _ex.parse_contracts(os.path.join(ctx.root, 'contracts', 'g_%s.contracts' % schema))
            expected = sum(1 for c in cs.values() for cl in c.clauses + [x for l in c.loops.values() for x in l] if prop in cl.props and cl.kind != 'requires')
        except Exception:
            pass
        if not expected: continue
        unit = {'schema': schema, 'status': e['status'], 'why': e['why'], 'verus_cmd': e.get('verus_cmd'), 'wall_s': e.get('wall_s'),
                'grammar': 'see bounded.schemas[%s]' % schema, 'vacuity_canary': e.get('canary')}
        out['units'].append(unit)
        if e['status'] == 'proved':
            obl = [c for c in mine if c['kind'] != 'requires']
            out['obligations'] += len(obl); out['discharged'] += len(obl)
            out['functions'] += sorted({'generated(%s)::%s' % (schema, c['fn'].split('#')[0]) for c in obl})
            out['samples'] += ['generated(%s)::%s::%s[%s]' % (schema, c['fn'], c['kind'], c['label']) for c in obl[:3]]
            out['log'] += [l for l in e['index'].get('log', []) if l['rule'] in ('X15', 'X8') or l['fn'].startswith('peginator_generated')][:30]
        else:
            out['notes'].append('proof of the generated code of schema %s NOT established on this tree (%s): its %d obligations are not counted; '
                                'the schema is decided by the bounded enumeration, re-run at the thorough bound' % (schema, (e['why'] or '')[:200], expected))
            out['escalate'].append(schema)
    return out
