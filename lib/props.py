"""Per-property composition of the layers (DESIGN §6)."""
import os, json, time, concurrent.futures
import layer_r
import twin
from extract import LostAnchor
from common import repo_state

# property -> configuration
PROPS = {
    'C01': {'level': 'proof', 'layers': ['R']},
    'C02': {'level': 'proof', 'layers': ['R']},
    'C03': {'level': 'proof', 'layers': ['R']},
    'C04': {'level': 'proof', 'layers': ['R']},
    'C05': {'level': 'proof', 'layers': ['R']},
    'C07': {'level': 'proof', 'layers': ['R']},
    'C08': {'level': 'proof', 'layers': ['R']},
    'C09': {'level': 'proof', 'layers': ['R']},
    'C10': {'level': 'proof', 'layers': ['R']},
    'C12': {'level': 'proof', 'layers': ['R']},
    'C14': {'level': 'proof', 'layers': ['R']},
    'C19': {'level': 'proof', 'layers': ['R']},
}

R_TRUSTED = [
    'Verus 0.2026.09.13 + Z3 as shipped; vstd axioms about str/Seq/UTF-8',
    'assume_specification: str::get_unchecked (documented safety contract as requires), <str as Index>::index (ensures), '
    'u8::is_ascii_whitespace, u8::to_ascii_lowercase, char::is_ascii, str::starts_with (one uninterpreted predicate + axioms for &str and char patterns)',
    'axiom: a str is at most usize::MAX bytes long',
    'X2: derived Clone of ParseState returns an equal value (external_body)',
    'extraction rules X1..X12 of DESIGN.md §3.2 (attributes/doc comments dropped, mut-self rebinding, named return values, ghost clauses inserted)',
]

def run_R(ctx):
    """runs both units once per process; cached"""
    if 'R' in ctx.cache: return ctx.cache['R']
    res = {}
    for unit in ('runtime', 'codegen'):
        try:
            res[unit] = layer_r.run_unit(ctx.repo, ctx.scratch, unit,
                                         extra=(['--smt-option', 'smt.random_seed=%d' % (ctx.seed % 1000)] if ctx.seed else []))
        except LostAnchor as e:
            res[unit] = {'unit': unit, 'lost_anchor': str(e), 'failures': [], 'inconclusive': ['lost anchor in unit %s: %s' % (unit, e)],
                         'index': {'clauses': [], 'fns': [], 'log': []}, 'theorems': {}, 'fn_status': {}, 'assumptions': []}
    ctx.cache['R'] = res
    return res

def expected_clauses(prop):
    """labelled clauses per unit for a property, read from the contract files (independent of extraction)"""
    import gen_runtime
    from extract import parse_contracts
    res = {}
    for unit, u in gen_runtime.UNITS.items():
        cs = parse_contracts(os.path.join(os.path.dirname(os.path.abspath(__file__)), '..', 'contracts', u['contracts']))
        lst = []
        for key, c in cs.items():
            qual = (key[1] + '::' if key[1] != '-' else '') + key[2]
            for cl in c.clauses + [x for l in c.loops.values() for x in l]:
                if prop in cl.props: lst.append((qual, cl.label, cl.kind))
        res[unit] = lst
    return res

def r_part(ctx, prop):
    R = run_R(ctx)
    out = {'violations': [], 'inconclusive': [], 'obligations': 0, 'discharged': 0, 'samples': [], 'functions': [],
           'preconditions': [], 'units': {}, 'extraction_log': [], 'assumption_scan': [], 'fn_times': {}}
    expect = expected_clauses(prop)
    for unit, an in R.items():
        idx = an['index']
        mine = [c for c in idx['clauses'] if prop in c['props']]
        thms = {n: t for n, t in an.get('theorems', {}).items() if prop in t['props']}
        unreach = idx.get('unreachable', {})
        have = {(c['fn'].split('#')[0], c['label']) for c in mine}
        missing = [e for e in expect.get(unit, []) if (e[0], e[1]) not in have and e[0] not in unreach]
        if missing or an.get('lost_anchor'):
            out['inconclusive'].append('unit %s: labelled clauses of %s not extracted: %s (%s)' % (
                unit, prop, [m[1] for m in missing][:6], an.get('lost_anchor') or 'extraction incomplete'))
            continue
        for fn, why in unreach.items():
            labels = [e[1] for e in expect.get(unit, []) if e[0] == fn]
            if labels:
                out.setdefault('unreachable', {})[fn] = {'unit': unit, 'reason': why, 'clauses': labels}
        mine = [c for c in mine if c['fn'].split('#')[0] not in unreach]
        if not mine and not thms and not expect.get(unit):
            continue
        out['units'][unit] = {'verus_cmd': an.get('verus_cmd'), 'wall_s': an.get('wall_s'), 'verified_fns': an.get('verified'), 'errors': an.get('errors')}
        relevant_fns = sorted({c['fn'].split('#')[0] for c in mine})
        out['functions'] += ['%s (%s)' % (f, unit) for f in relevant_fns]
        if an['inconclusive']:
            # the unit as a whole could not be decided -> this property's R part is undecided
            out['inconclusive'] += an['inconclusive']
            out['hard_error_fns'] = an.get('hard_error_fns', [])
        failed_labels = {}
        for f in an['failures']:
            if prop in f.get('props', []):
                failed_labels.setdefault(f['label'], []).append(f)
        assumed_fns = {f['name'] for f in idx['fns'] if f.get('mode') == 'assume'}
        for c in mine:
            if c['fn'].split('#')[0] in assumed_fns:
                out.setdefault('assumed_contracts', []).append('%s::%s[%s] (ASSUMED: body is external_body)' % (c['fn'], c['kind'], c['label']))
                continue
            if c['kind'] == 'requires':
                out['preconditions'].append('%s::requires[%s]' % (c['fn'], c['label']))
                continue
            out['obligations'] += 1
            name = '%s::%s[%s]' % (c['fn'], c['kind'], c['label'])
            if c['label'] not in failed_labels and not an['inconclusive']:
                out['discharged'] += 1
            if len(out['samples']) < 6: out['samples'].append(name)
        for n, t in thms.items():
            out['obligations'] += 1
            ok = t['status'] is not None and t['status'].get('success')
            if ok and n not in failed_labels and not an['inconclusive']:
                out['discharged'] += 1
            if len(out['samples']) < 8: out['samples'].append('theorem ' + n)
        for label, fs in failed_labels.items():
            f = fs[0]
            vid = 'R:%s:%s@%s' % (unit, label, f.get('in_fn') or f.get('clause_fn'))
            replay = ctx.replay_path('R-%s-%s' % (label, (f.get('in_fn') or 'thm')))
            v = {'id': vid, 'layer': 'R', 'unit': unit, 'obligation': label, 'in_fn': f.get('in_fn'), 'clause_fn': f.get('clause_fn'),
                 'kind': f.get('kind'), 'message': f['message'], 'verifier_output': [x['rendered'] for x in fs][:4],
                 'replay': replay, 'no_failing_input': True,
                 'what': 'Verus: %s for obligation [%s] of %s while verifying %s' % (f['message'], label, f.get('clause_fn'), f.get('in_fn'))}
            out['violations'].append(v)
        out['extraction_log'] += [l for l in idx['log'] if any(l['fn'].startswith(fn.split('::')[0]) or l['fn'] == fn for fn in relevant_fns)][:60]
        out['assumption_scan'] += ['%s:%d %s' % (unit, a['line'], a['text']) for a in an.get('assumptions', [])]
        for k, v in an.get('fn_status', {}).items():
            out['fn_times'][k] = v
    return out

def run_canaries(ctx, prop, frac):
    """vacuity guard (DESIGN §3.7): `ensures false` added to a contracted function must fail"""
    import gen_runtime
    R = run_R(ctx)
    jobs = []
    for unit, an in R.items():
        keys = an['index'].get('contract_keys', [])
        fns = {c['fn'].split('#')[0] for c in an['index']['clauses'] if prop in c['props'] and c['kind'] != 'requires'}
        assumed_fns = {f['name'] for f in an['index']['fns'] if f.get('mode') == 'assume'}
        assumed_fns |= set(an['index'].get('unreachable', {}).keys())
        for k in keys:
            qual = (k[1] + '::' if k[1] != '-' else '') + k[2]
            if qual in fns and not k[1].startswith('trait_') and qual not in assumed_fns:
                jobs.append((unit, k))
    jobs.sort()
    if frac < 1.0:
        step = max(1, int(round(1 / frac)))
        off = ctx.seed % step
        jobs = jobs[off::step] or jobs[:1]
    results = []
    with concurrent.futures.ThreadPoolExecutor(max_workers=12) as ex:
        futs = [ex.submit(layer_r.run_canary, ctx.repo, ctx.scratch, u, k, i) for i, (u, k) in enumerate(jobs)]
        for f in futs: results.append(f.result())
    return results

def twin_search(ctx, fn, allow_kani=True):
    """look for a concrete failing input of `fn`'s contract on the real code: native enumeration, then Kani"""
    key = ('twin', fn, allow_kani)
    if key in ctx.cache: return ctx.cache[key]
    out = {'fn': fn, 'native': None, 'kani': None, 'found': None}
    if fn not in twin.TWIN_OF:
        out['missing'] = True
        ctx.cache[key] = out
        return out
    n = twin.enumerate_native(ctx, fn)
    out['native'] = {k: n.get(k) for k in ('status', 'cases', 'why', 'case')}
    if n['status'] == 'fail':
        out['found'] = {'by': 'native exhaustive enumeration', 'why': n['why'], 'case': n['case'], 'kv': n['kv'], 'twin': n['twin']}
    elif allow_kani:
        k = twin.kani(ctx, fn)
        out['kani'] = {kk: k.get(kk) for kk in ('status', 'harness', 'cmd', 'wall_s', 'checks', 'failed_checks', 'why', 'failed_descriptions', 'bound')}
        if k['status'] == 'fail' and k.get('concrete_vals'):
            rp = twin.replay_vals(ctx, fn, k['concrete_vals'])
            if rp['status'] == 'fail':
                out['found'] = {'by': 'Kani counterexample, replayed natively on the real function', 'why': rp['why'], 'case': rp['case'], 'kv': rp['kv'],
                                'twin': twin.TWIN_OF[fn][0], 'kani_concrete_vals': k['concrete_vals']}
            else:
                out['kani']['replay'] = rp
    ctx.cache[key] = out
    return out

def twin_followup(ctx, res, r):
    # 1. failed Verus obligations: find and replay a concrete failing input
    for v in res['violations']:
        if v.get('layer') != 'R' or v.get('unit') != 'runtime': continue
        fn = v.get('in_fn') or v.get('clause_fn')
        ts = twin_search(ctx, fn)
        v['twin'] = {k: ts.get(k) for k in ('native', 'kani', 'missing')}
        if ts.get('found'):
            f = ts['found']
            v['no_failing_input'] = False
            v['failing_input'] = f
            v['what'] += '\nfailing input (%s): %s -> %s' % (f['by'], json.dumps(f['case']), f['why'])
    # 2. functions outside the verifier's reach: a bounded check stands in, labelled bounded
    bounded = []
    for fn, info in r.get('unreachable', {}).items():
        ts = twin_search(ctx, fn, allow_kani=(ctx.tier == 'thorough'))
        if ts.get('missing'):
            res['inconclusive'].append('%s is outside the verifier\'s reach (%s) and has no bounded stand-in' % (fn, info['reason'][:200]))
            continue
        if ts.get('found'):
            f = ts['found']
            label = info['clauses'][0] if info['clauses'] else 'contract'
            res['violations'].append({
                'id': 'R-bounded:%s' % fn, 'layer': 'R-bounded', 'unit': info['unit'], 'obligation': 'contract of %s %s' % (fn, info['clauses']),
                'in_fn': fn, 'replay': ctx.replay_path('Rb-%s' % fn), 'no_failing_input': False, 'failing_input': f,
                'what': '%s is outside Verus\' reach (%s); its bounded twin found a contract violation (%s): %s -> %s' % (
                    fn, info['reason'][:160], f['by'], json.dumps(f['case']), f['why'])})
        else:
            errs = [x for x in (ts.get('native'), ts.get('kani')) if x and x.get('status') == 'error']
            if errs and not (ts.get('native') or {}).get('status') == 'pass':
                res['inconclusive'].append('%s: outside the verifier\'s reach and the bounded stand-in did not run: %s' % (fn, errs[0].get('why')))
            else:
                bounded.append({'function': fn, 'reason_outside_reach': info['reason'][:300], 'clauses_not_proved': info['clauses'],
                                'bounded_stand_in': ts, 'bound': twin.BOUND})
                res['notes'].append('%s is NOT proved on this tree (outside the verifier\'s reach: %s); bounded twin passed (%s)' % (fn, info['reason'][:120], twin.BOUND))
    if bounded:
        res['coverage']['bounded_stand_ins'] = bounded

def run_property(ctx):
    cfg = PROPS[ctx.prop]
    res = {'level': cfg['level'], 'violations': [], 'inconclusive': [], 'notes': [], 'assumptions': [], 'coverage': {},
           'repo_state': repo_state(ctx.repo)}
    cov = res['coverage']
    if 'R' in cfg['layers']:
        r = r_part(ctx, ctx.prop)
        res['violations'] += r['violations']
        res['inconclusive'] += r['inconclusive']
        cov.update({
            'obligations': r['obligations'], 'discharged': r['discharged'],
            'checker_cmd': '; '.join('%s: %s' % (u, d['verus_cmd']) for u, d in r['units'].items()),
            'trusted_base': R_TRUSTED,
            'functions_under_contract': r['functions'],
            'preconditions_assumed_of_callers_or_checked_at_call_sites': r['preconditions'],
            'samples': r['samples'],
            'backend': 'Verus 0.2026.09.13 / Z3',
            'units': r['units'],
            'extraction_rules_applied': r['extraction_log'],
            'assumption_scan': r['assumption_scan'],
            'assumed_contracts_not_counted': r.get('assumed_contracts', []),
            'solver_time_ms_per_function': {k: v['time_ms'] for k, v in r['fn_times'].items()},
        })
        frac = 1.0 if ctx.tier == 'thorough' else 0.34
        if not r['inconclusive']:
            can = run_canaries(ctx, ctx.prop, frac)
            bad = [c for c in can if not c['ok']]
            cov['canaries'] = {'run': len(can), 'failed_as_required': len(can) - len(bad)}
            for b in bad:
                res['inconclusive'].append('vacuity canary did not fail for %s: %s' % (b['key'], b['why']))
        res['assumptions'] += R_TRUSTED
    if 'R' in cfg['layers']:
        twin_followup(ctx, res, r)
    for v in res['violations']:
        json.dump({'property': ctx.prop, **{k: v[k] for k in v if k != 'replay'}}, open(v['replay'], 'w'), indent=1)
    res['summary'] = 'R: %d/%d obligations discharged' % (cov.get('discharged', 0), cov.get('obligations', 0))
    return res
