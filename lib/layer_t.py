"""Layer T driver (DESIGN §5): the tree's own generator is run on the schema grammars; the generated code is
compiled unmodified into the harness crate and compared with the reference semantics for EVERY behaviour of the
abstract operands within the stated bound (native exhaustive enumeration; Kani on the same harness code)."""
import os, sys, re, json, shutil, subprocess, time, concurrent.futures

QUICK_CAP = 5e7
THOROUGH_CAP = 6e8

# how a disagreement found on a schema is attributed: judge label -> property ('*' = any other label)
RELABEL = {
    'include_noskip': {'C01': ['C13', 'C08', 'C01'], '*': ['C13']}, 'include_inlined': {'C01': ['C13', 'C08'], '*': ['C13']},
    'include_directives': {'*': ['C13']},
    'opt_include': {'C10': ['C13', 'C10'], '*': ['C13']}, 'opt_inlined': {'C10': ['C13', 'C10'], '*': ['C13']},
    'ws_tokens': {'*': ['C08']}, 'ws_noskip_calls_skip': {'*': ['C08']}, 'ws_near_miss': {'*': ['C08']}, 'ws_custom': {'*': ['C08']},
    'ws_lookahead_closure': {'C10': ['C10', 'C08'], '*': ['C08']},
    'memo_check': {'C06': ['C06'], '*': ['C05']}, 'memo_plain': {'C06': ['C06'], '*': ['C05']}, 'memo_string': {'C06': ['C06'], '*': ['C05']},
    'leftrec_first': {'C10': ['C10'], 'C02': ['C07', 'C02'], '*': ['C07']}, 'leftrec_last': {'*': ['C07']},
    'leftrec_retry': {'C10': ['C10'], 'C02': ['C07', 'C02', 'C05'], '*': ['C07']},
    'leftrec_nullable': {'*': ['C07']},
    'check2_plain': {'*': ['C14', 'C12']}, 'extern_ctx': {'*': ['C14']}, 'trace_rules': {'*': ['C19']},
    'position_skip': {'*': ['C09']}, 'position_string': {'*': ['C09']}, 'position_root': {'*': ['C09']}, 'position_root_bom': {'*': ['C09']},
    'string_rule': {'C09': ['C09'], '*': ['C02']}, 'char_rule': {'C14': ['C14'], 'C10': ['C10'], '*': ['C01', 'C14']},
    'position_enum_override': {'*': ['C09']}, 'check_string': {'C10': ['C10', 'C14'], '*': ['C14']}, 'check_override': {'*': ['C14']},
    'leftrec_indirect': {'C10': ['C10'], '*': ['C07']}, 'extern_string': {'*': ['C14']},
    'include_nested': {'C01': ['C13', 'C08'], '*': ['C13']}, 'include_choice_closure': {'*': ['C13']},
    'memo_position': {'C06': ['C06'], 'C09': ['C09', 'C05'], '*': ['C05']}, 'derives_empty': {'*': ['C01']},
    'leftrec_check': {'C10': ['C10'], '*': ['C07', 'C14']}, 'leftrec_memoize': {'C10': ['C10'], 'C01': ['C07', 'C05', 'C01'], '*': ['C07', 'C05']},
    'ws_literal_leading_space': {'C01': ['C08', 'C01'], '*': ['C08']}, 'ws_custom_literal_space': {'*': ['C08']},
    'string_skipping': {'C09': ['C09', 'C08', 'C02'], '*': ['C08']}, 'memo_ws_from_noskip': {'C09': ['C09', 'C05'], '*': ['C05']},
    'position_closure': {'*': ['C09', 'C08']}, 'string_override': {'*': ['C02']}, 'optional_nested': {'C02': ['C02'], 'C10': ['C10'], '*': ['C01']},
    'include_fieldless_check': {'*': ['C13']}, 'include_chain': {'*': ['C13']},
    'leftrec_memo_inner': {'C06': ['C06'], 'C10': ['C10'], '*': ['C07', 'C05']},
    'nest_skip_mix': {'*': ['C08']},
    'ws_choice_nullable': {'C09': ['C09', 'C08'], 'C01': ['C08', 'C01', 'C09'], '*': ['C08']}, 'ws_choice_opt_arm': {'C01': ['C08', 'C01'], '*': ['C08']},
    'check_position': {'C09': ['C09'], '*': ['C14']}, 'seq_rebind': {'*': ['C02']}, 'string_insensitive': {'*': ['C02']},
    'opt_choice_fields': {'*': ['C02']}, 'choice_arm_choice_fields': {'*': ['C02']}, 'position_string_utf8': {'C04': ['C04'], '*': ['C09']},
    'include_same_name_other_body': {'C01': ['C13', 'C08'], '*': ['C13']},
    'char_rule_single': {'C10': ['C10'], '*': ['C14', 'C01']}, 'include_diamond': {'*': ['C13']}, 'include_boxed': {'*': ['C13']},
    'memo_include': {'*': ['C05', 'C13', 'C14']}, 'leftrec_unnamed': {'C10': ['C10'], '*': ['C07']}, 'leftrec_optional_tail': {'C10': ['C10'], '*': ['C07', 'C02']},
    'ws_lookahead_tail': {'C09': ['C09', 'C08'], '*': ['C08']}, 'memo_position_two_entries': {'C09': ['C09', 'C05'], '*': ['C05']},
    'ws_choice_then_char': {'C02': ['C02', 'C08'], '*': ['C08']}, 'memo_lookahead_reuse': {'C10': ['C10'], '*': ['C05']}, 'extern_noskip_blanks': {'C10': ['C10'], '*': ['C14']}, 'memo_deep': {'C10': ['C10'], '*': ['C01']},
    'optional_field_reused': {'*': ['C02']}, 'closure_field_named_result': {'*': ['C02']},
    'memo_user_ctx': {'C06': ['C06'], '*': ['C05']}, 'memo_failure_reuse': {'C06': ['C06'], '*': ['C05']},
    'char_rule_ws': {'C10': ['C10'], '*': ['C08', 'C01']}, 'term_insensitive_nonletter': {'C10': ['C10'], '*': ['C01', 'C12']},
    'term_closure_range_utf8': {'C10': ['C10'], 'C04': ['C04'], '*': ['C01']},
    'enum_field': {'*': ['C02']}, 'boxed': {'*': ['C02']}, 'box_merge': {'*': ['C02']}, 'override_simple': {'*': ['C02']}, 'override_enum': {'*': ['C02']},
}
# driver-level verdicts (reject / compile / same_as) and compile errors are attributed to:
STATIC_PROP = {'reject_nonascii_insensitive': 'C04', 'keywords': 'C03', 'keywords_all': 'C03', 'field_named_like_unit_rule': 'C03', 'layout_variants': 'C12', 'layout_tight': 'C12'}

def templates_dir(ctx): return os.path.join(ctx.root, 'kani', 'templates')

def load_defs(ctx):
    sys.path.insert(0, templates_dir(ctx))
    import schema_defs, schemas
    return schema_defs.SCHEMAS, schemas

# Which judge labels may be attributed to which property (the label names what disagreed: C01 acceptance / bytes consumed,
# C02 tree, C09 spans, C10 error position or sentinel, C14 / C06 / C19 / C07... schema-specific post-conditions).
# A property owns a schema (RELABEL) because the schema isolates its feature, but it is only charged with disagreements its
# statement speaks about: e.g. C14 does not mention error positions, so an error-position disagreement on a @check schema is
# C10's, never C14's.
SCOPE = {
    'C01': {'C01'}, 'C09': {'C09'}, 'C10': {'C10'}, 'C06': {'C06'},
    'C02': {'C02', 'C09'},      # C09-labelled on the schemas C02 owns = the string a `@string` rule yields is not the slice it consumed

    'C07': {'C01', 'C02', 'C07'},
    'C08': {'C01', 'C02', 'C09', 'C08'},
    'C12': {'C01', 'C02', 'C14', 'C12'},
    'C14': {'C01', 'C02', 'C14'},
    # the three differential properties are decided by `tenum diff` against the twin, not by labels (DIFF below); only their
    # own absolute post-conditions are taken from the judge
    'C13': {'C13'}, 'C05': {'C05'}, 'C19': {'C19'},
}
# differential properties: twin kind, and whether the reported error position is part of the comparison
DIFF = {'C13': ('inl', True), 'C05': ('nomemo', False), 'C19': ('notrace', True)}
LABELS = ['C01', 'C02', 'C06', 'C07', 'C08', 'C09', 'C10', 'C13', 'C14', 'C19']

def twin_name(name, prop):
    return '%s__%s' % (name, DIFF[prop][0])

def relabel(name, label):
    """properties under which a disagreement with judge label `label` on schema `name` is reported"""
    if label == 'C04': return ['C04']
    m = RELABEL.get(name)
    if m is None: return [label]
    owners = m.get(label, m.get('*', [label]))
    res = [p for p in owners if label in SCOPE.get(p, {p})]
    # what is outside the owners' statements is charged to the property the label itself names
    return res or [label]

def possible_labels(sdef):
    """judge labels a schema can produce at all"""
    ls = {'C01'} | set(re.findall(r'"(C\d\d)', sdef.post or ''))
    if sdef.cmp_fields and sdef.extract: ls.add('C02')
    if 'o.x[' in (sdef.extract or ''): ls.add('C09')
    if sdef.cmp_err or any(getattr(r, 'leftrec', False) for r in sdef.rules): ls.add('C10')
    # an operand that is not handed the remaining input at the current offset (label C14) can show wherever blanks can stand at a call
    if sdef.user_ctx or sdef.extern_str or (sdef.ops and ' ' in (sdef.alphabet or '')): ls.add('C14')
    return ls

def outputs_of(name, sdef, SCHEMAS=None):
    """properties a schema can report under"""
    if sdef.aux_of: return {'C03'}      # a twin is a grammar like any other: it must compile; its behaviour is only used for comparison
    if sdef.expect != 'ok':
        return {STATIC_PROP.get(name, 'C03')}
    out = {'C03', 'C04', 'C12'}
    if RELABEL.get(name) is None:
        out |= set(sdef.props)
    else:
        for l in possible_labels(sdef):
            out |= set(relabel(name, l))
    if SCHEMAS is not None:
        for p in DIFF:
            if twin_name(name, p) in SCHEMAS: out.add(p)
    return out

def _cargo_env(gen=None):
    env = dict(os.environ, CARGO_NET_OFFLINE='true')
    if gen: env['SCHEMA_GEN_DIR'] = gen
    return env

def prepare(ctx):
    """build driver, generate code for every schema, build harness. Cached per process."""
    if 'T' in ctx.cache: return ctx.cache['T']
    T = {'errors': [], 'static': {}, 'compile_violations': {}, 'excluded': []}
    ctx.cache['T'] = T
    t0 = time.time()
    tdir = templates_dir(ctx)
    lock = os.path.join(ctx.repo, 'Cargo.lock')
    # --- driver
    drv = os.path.join(ctx.scratch, 'drv')
    shutil.rmtree(drv, ignore_errors=True)
    shutil.copytree(os.path.join(tdir, 'driver', 'src'), os.path.join(drv, 'src'))
    open(os.path.join(drv, 'Cargo.toml'), 'w').write(open(os.path.join(tdir, 'driver', 'Cargo.toml.in')).read().replace('@REPO@', ctx.repo))
    if os.path.exists(lock): shutil.copy(lock, os.path.join(drv, 'Cargo.lock'))
    p = subprocess.run(['cargo', 'build', '--offline', '--release'], cwd=drv, capture_output=True, text=True, env=_cargo_env(), timeout=1200)
    if p.returncode != 0:
        T['errors'].append('the generator (codegen crate) does not build: ' + p.stderr[-800:])
        return T
    T['driver'] = os.path.join(drv, 'target', 'release', 'schema_driver')
    # --- generate
    gen = os.path.join(ctx.scratch, 'tgen')
    shutil.rmtree(gen, ignore_errors=True)
    sys.path.insert(0, tdir)
    import gen_schemas
    SCHEMAS, _ = load_defs(ctx)
    names = [n for n in SCHEMAS if not SCHEMAS[n].isolated]
    T['gen'] = gen
    for attempt in range(4):
        try:
            status = gen_schemas.main(T['driver'], gen, [n for n in names if n not in T['excluded']])
        except SystemExit:
            T['errors'].append('schema driver crashed'); return T
        T['status'] = status
        # --- harness
        th = os.path.join(ctx.scratch, 'th')
        if not os.path.exists(th):
            shutil.copytree(os.path.join(tdir, 'harness', 'src'), os.path.join(th, 'src'))
            open(os.path.join(th, 'Cargo.toml'), 'w').write(open(os.path.join(tdir, 'harness', 'Cargo.toml.in')).read().replace('@REPO@', ctx.repo))
            if os.path.exists(lock): shutil.copy(lock, os.path.join(th, 'Cargo.lock'))
        p = subprocess.run(['cargo', 'build', '--offline', '--release', '--message-format=json'], cwd=th, capture_output=True, text=True,
                           env=_cargo_env(gen), timeout=1800)
        if p.returncode == 0:
            T['harness'] = os.path.join(th, 'target', 'release', 'tenum')
            T['harness_dir'] = th
            break
        # attribute compile errors to schemas
        offenders = {}
        other = []
        modlines = _module_lines(os.path.join(gen, 'schemas.rs'))
        for line in p.stdout.split('\n'):
            if not line.startswith('{'): continue
            try: m = json.loads(line)
            except Exception: continue
            msg = m.get('message') or {}
            if m.get('reason') != 'compiler-message' or msg.get('level') != 'error': continue
            hit = None
            for sp in msg.get('spans', []):
                fn = sp.get('file_name', '')
                b = os.path.basename(fn)
                if fn.startswith(gen) and b.endswith('.rs') and b not in ('schemas.rs', 'dispatch.rs'):
                    hit = b[:-3]; break
                if b == 'schemas.rs':
                    for (name, lo, hi) in modlines:
                        if lo <= sp.get('line_start', 0) <= hi: hit = name
                    if hit: break
            if hit: offenders.setdefault(hit, []).append(msg.get('rendered', msg.get('message', ''))[:1200])
            else: other.append(msg.get('rendered', '')[:600])
        if not offenders:
            T['errors'].append('harness crate does not build (not attributable to a schema): ' + (other[0] if other else p.stderr[-600:]))
            return T
        for n, msgs in offenders.items():
            T['compile_violations'][n] = msgs
            T['excluded'].append(n)
    else:
        T['errors'].append('harness crate still does not build after excluding %s' % T['excluded'])
    T['prepare_s'] = round(time.time() - t0, 1)
    return T

def build_isolated(ctx, T, name):
    """schemas kept out of the shared harness crate (a known finding that does not compile would force a rebuild on every
    run of every property): generated and compiled on their own, only for the properties they were written for"""
    import gen_schemas
    gen = os.path.join(ctx.scratch, 'tgen_' + name)
    shutil.rmtree(gen, ignore_errors=True)
    st = gen_schemas.main(T['driver'], gen, [name])
    T['status'][name] = st[name]
    if st[name]['driver'] != 'OK':
        return
    th = T.get('harness_dir') or os.path.join(ctx.scratch, 'th')
    env = _cargo_env(gen); env['CARGO_TARGET_DIR'] = os.path.join(ctx.scratch, 'th_iso_target')
    p = subprocess.run(['cargo', 'build', '--offline', '--release', '--lib', '--message-format=json'], cwd=th, capture_output=True, text=True, env=env, timeout=1800)
    if p.returncode != 0:
        msgs = []
        for line in p.stdout.split('\n'):
            if not line.startswith('{'): continue
            try: m = json.loads(line)
            except Exception: continue
            msg = m.get('message') or {}
            if m.get('reason') == 'compiler-message' and msg.get('level') == 'error':
                msgs.append(msg.get('rendered', msg.get('message', ''))[:1200])
        T['compile_violations'][name] = msgs or [p.stderr[-800:]]
        T['excluded'].append(name)

def _ebnf_path(ctx, T, n):
    p = os.path.join(T['gen'], n + '.ebnf')
    return p if os.path.exists(p) else os.path.join(ctx.scratch, 'tgen_' + n, n + '.ebnf')

def _module_lines(path):
    res = []
    cur = None
    for i, l in enumerate(open(path).read().split('\n'), 1):
        m = re.match(r'pub mod (\w+) \{', l)
        if m:
            if cur: res.append((cur[0], cur[1], i - 1))
            cur = (m.group(1), i)
    if cur: res.append((cur[0], cur[1], 10 ** 9))
    return res

def localise_hang(T, name, n, budget=300, quiet=20):
    """after `enumerate` timed out: print every table before running it and name the one on which the parser stops responding"""
    import threading
    p = subprocess.Popen([T['harness'], 'enumerate-trace', name, str(n)], stdout=subprocess.PIPE, stderr=subprocess.DEVNULL, text=True)
    last = {'line': None, 't': time.time(), 'count': 0}
    def reader():
        for line in p.stdout:
            if line.startswith('T-RUN '):
                last['line'] = line.rstrip('\n'); last['t'] = time.time(); last['count'] += 1
    th = threading.Thread(target=reader, daemon=True); th.start()
    t0 = time.time()
    found = None
    while time.time() - t0 < budget:
        if p.poll() is not None: break
        if last['line'] and time.time() - last['t'] > quiet:
            found = last['line']; break
        time.sleep(1)
    try: p.kill()
    except Exception: pass
    return found, last['count']

def run_schema(T, name, n):
    t0 = time.time()
    limit = T.get('enum_timeout', 600)
    try:
        p = subprocess.run([T['harness'], 'enumerate', name, str(n)], capture_output=True, text=True, timeout=limit)
    except subprocess.TimeoutExpired:
        # far beyond the normal running time of an enumeration: a generated parser that does not return. Find the table.
        line, seen = localise_hang(T, name, n)
        if line:
            kv = line.split(' kv=', 1)[1].split() if ' kv=' in line else []
            desc = line.split(' kv=')[0][6:]
        else:
            # no single table on which the parser stops responding was found: a slow machine is not a violation
            return {'name': name, 'status': 'error', 'why': 'enumeration of %s did not finish within %d s and no hanging table was found (%d tables traced)' % (name, limit, seen)}
        return {'name': name, 'status': 'fail', 'n': n, 'tables': 0, 'valid': 0, 'accepted': 0, 'rejected': 0, 'end_offsets': 0, 'nontrivial': 0,
                'wall_s': round(time.time() - t0, 2),
                'fails': [{'label': 'C01', 'what': 'the generated parser did not terminate: the enumeration (normally under a minute) was stopped after %d s, and on this table the parser had not returned after 20 s' % limit,
                           'after': seen, 'tables': desc, 'kv': kv, 'hang': True}]}
    out = p.stdout
    if p.returncode < 0 or (p.returncode not in (0, 1) and 'T-' not in out):
        # the enumerator died (stack overflow / abort inside the generated parser): localise the table
        tr = subprocess.run([T['harness'], 'enumerate-trace', name, str(n)], capture_output=True, text=True, timeout=3600)
        last = [l for l in tr.stdout.split('\n') if l.startswith('T-RUN ')]
        kv = last[-1].split(' kv=', 1)[1].split() if last else []
        desc = last[-1].split(' kv=')[0][6:] if last else '?'
        return {'name': name, 'status': 'fail', 'n': n, 'tables': 0, 'valid': 0, 'accepted': 0, 'rejected': 0, 'end_offsets': 0, 'nontrivial': 0,
                'wall_s': round(time.time() - t0, 2),
                'fails': [{'label': 'C01', 'what': 'the generated parser did not terminate normally (process died with status %s: stack overflow / abort)' % p.returncode,
                           'after': len(last), 'tables': desc, 'kv': kv, 'crash': True}]}
    m = re.search(r'T-(PASS|DONE) (\S+) n<=(\d+) tables=(\d+) valid=(\d+) accepted=(\d+) rejected=(\d+) distinct_end_offsets=(\d+) nontrivial=(\d+)', out)
    if not m:
        return {'name': name, 'status': 'error', 'why': (out + p.stderr)[-500:]}
    res = {'name': name, 'status': 'pass' if m.group(1) == 'PASS' else 'fail', 'n': int(m.group(3)), 'tables': int(m.group(4)), 'valid': int(m.group(5)),
           'accepted': int(m.group(6)), 'rejected': int(m.group(7)), 'end_offsets': int(m.group(8)), 'nontrivial': int(m.group(9)),
           'wall_s': round(time.time() - t0, 2), 'fails': []}
    for fm in re.finditer(r'^T-FAIL (\S+) prop=(\S+) what=(".*?") after=(\d+) tables=(.*?) kv=(.*)$', out, re.M):
        res['fails'].append({'label': fm.group(2), 'what': json.loads(fm.group(3)), 'after': int(fm.group(4)), 'tables': fm.group(5), 'kv': fm.group(6).split()})
    return res

def run_diff(T, name, twin, n, full):
    t0 = time.time()
    try:
        p = subprocess.run([T['harness'], 'diff', name, twin, str(n), 'full' if full else 'noerr'], capture_output=True, text=True, timeout=T.get('enum_timeout', 600))
    except subprocess.TimeoutExpired:
        return {'name': name, 'status': 'error', 'why': 'timeout'}
    m = re.search(r'T-DIFF-(PASS|DONE) (\S+) twin=(\S+) n<=(\d+) tables=(\d+) valid=(\d+) nontrivial=(\d+) differing=(\d+)', p.stdout)
    if not m:
        return {'name': name, 'status': 'error', 'why': 'the differential run of %s / %s died: %s' % (name, twin, (p.stdout + p.stderr)[-300:])}
    res = {'name': name, 'twin': twin, 'status': 'pass' if m.group(1) == 'PASS' else 'fail', 'n': int(m.group(4)), 'tables': int(m.group(5)), 'valid': int(m.group(6)),
           'nontrivial': int(m.group(7)), 'differing': int(m.group(8)), 'wall_s': round(time.time() - t0, 2), 'full': full}
    fm = re.search(r'^T-DIFF (\S+) twin=(\S+) what=(".*?") after=(\d+) tables=(.*?) kv=(.*)$', p.stdout, re.M)
    if fm:
        res['first'] = {'what': json.loads(fm.group(3)), 'after': int(fm.group(4)), 'tables': fm.group(5), 'kv': fm.group(6).split()}
    return res

def replay_diff(T, name, twin, full, kv):
    p = subprocess.run([T['harness'], 'replay-diff', name, twin, 'full' if full else 'noerr'] + list(kv), capture_output=True, text=True, timeout=300)
    m = re.search(r'T-REPLAY-(PASS|FAIL|INVALID) (\S+)(?: prop=(\S+) what=(".*?"))?(?: tables=(.*))?', p.stdout)
    if not m: return {'status': 'error', 'why': (p.stdout + p.stderr)[-400:]}
    return {'status': m.group(1).lower(), 'what': json.loads(m.group(4)) if m.group(4) else None, 'tables': m.group(5)}

def replay(T, name, kv):
    try:
        p = subprocess.run([T['harness'], 'replay', name] + list(kv), capture_output=True, text=True, timeout=60)
    except subprocess.TimeoutExpired:
        return {'status': 'fail', 'label': 'C01', 'what': 'the generated parser does not return on this table (stopped after 60 s)', 'tables': ' '.join(kv)}
    out = p.stdout
    m = re.search(r'T-REPLAY-(PASS|FAIL|INVALID) (\S+)(?: prop=(\S+) what=(".*?"))?(?: tables=(.*))?', out)
    if not m: return {'status': 'error', 'why': (out + p.stderr)[-400:]}
    return {'status': m.group(1).lower(), 'label': m.group(3), 'what': json.loads(m.group(4)) if m.group(4) else None, 'tables': m.group(5)}

def t_part(ctx, prop):
    SCHEMAS, sm = load_defs(ctx)
    T = prepare(ctx)
    out = {'violations': [], 'inconclusive': [], 'schemas': [], 'evaluations': 0, 'nontrivial': 0, 'samples': [], 'static': []}
    if T['errors']:
        out['inconclusive'] += T['errors']
        return out
    mine = [n for n, s in SCHEMAS.items() if prop in outputs_of(n, s, SCHEMAS) and not s.isolated]
    for n, s in SCHEMAS.items():
        if s.isolated and prop in s.props:
            if n not in T['status']: build_isolated(ctx, T, n)
            mine.append(n)
    cap = THOROUGH_CAP if ctx.tier == 'thorough' else QUICK_CAP
    T['enum_timeout'] = 5400 if ctx.tier == 'thorough' else 600
    # static verdicts
    for n in mine:
        s = SCHEMAS[n]
        st = T['status'].get(n)
        if n in T['compile_violations'] and (prop == 'C03' or prop == STATIC_PROP.get(n) or prop in s.props):
            rp = ctx.replay_path('T-compile-%s' % n)
            out['violations'].append({'id': 'T:%s:compile' % n, 'layer': 'T', 'schema': n, 'assertion': 'generated code compiles with the documented types',
                                      'replay': rp, 'no_failing_input': False, 'grammar': open(_ebnf_path(ctx, T, n)).read(),
                                      'rustc': T['compile_violations'][n][:3],
                                      'what': 'schema %s (%s): rustc rejects the generated code / its documented field types:\n%s' % (n, s.note, T['compile_violations'][n][0][:700])})
            continue
        if st is None: continue
        if s.expect != 'ok' or st['verdict'] == 'violation':
            rejected_ok_schema = st['verdict'] == 'violation' and s.expect == 'ok'
            parse_err = 'parse error' in st.get('driver', '')
            if rejected_ok_schema:
                # a grammar that follows the syntax reference was refused: by the front end (C12) or by the generator (C03);
                # either way the schema's own properties cannot be decided and report it too
                if not (prop == ('C12' if parse_err else 'C03') or prop in s.props): continue
            elif prop != STATIC_PROP.get(n, 'C03'):
                continue
            ok = st['verdict'] in ('ok', 'compile-pending', 'harness')
            out['static'].append({'schema': n, 'expect': s.expect, 'driver': st['driver'][:200], 'ok': ok})
            if not ok:
                rp = ctx.replay_path('T-static-%s' % n)
                out['violations'].append({'id': 'T:%s:%s' % (n, s.expect), 'layer': 'T', 'schema': n, 'assertion': 'generator verdict: expected ' + s.expect,
                                          'replay': rp, 'no_failing_input': False, 'grammar': open(_ebnf_path(ctx, T, n)).read(),
                                          'what': 'schema %s (%s): expected "%s" from the generator, got: %s' % (n, s.note, s.expect, st['driver'][:400])})
    run = [n for n in mine if SCHEMAS[n].expect == 'ok' and n not in T['excluded'] and T['status'].get(n, {}).get('verdict') == 'harness']
    if prop == 'C03':
        # the documented type mapping is decided by rustc on the type assertions of every schema (done in prepare());
        # enumerating behaviours adds nothing for this property
        out['compiled_with_type_assertions'] = [n for n in run]
        out['samples'].append({'schema': 'seq_choice', 'assertions': ['let _: &Vec<A> = &v.a;', 'let _: &Option<B> = &v.b;']})
        run = [n for n in run if 'C03' in SCHEMAS[n].props and n in ('enum_field', 'boxed', 'box_merge', 'override_simple', 'override_enum')]
    if prop == 'C12':
        # for the other schemas only the front end's verdict on their grammar text matters (decided in prepare())
        out['grammar_texts_read_by_the_front_end'] = len(run)
        run = [n for n in run if 'C12' in SCHEMAS[n].props or any('C12' in v for v in RELABEL.get(n, {}).values())]
    if prop == 'C04':
        # every schema is run (a panic of the generated glue is reported under C04), at a small bound
        cap = min(cap, 3e6)
    diff_jobs = {}
    if prop in DIFF:
        # differential property: the schema and its twin (the feature removed) are run on every table and their REAL runs compared
        for n in run:
            tw = twin_name(n, prop)
            if tw not in SCHEMAS: continue
            hung = [k for k, r in T.get('enum_cache', {}).items() if k[0] == n and any(f.get('hang') for f in r.get('fails', []))]
            if hung:
                # already found in this process: the generated parser of this schema does not return (reported under C01 and the
                # schema's owners); comparing it with its twin would only time out again
                out['inconclusive'].append('schema %s: its generated parser does not return on some table (reported as a termination violation); the differential run is skipped' % n)
                continue
            if T['status'].get(tw, {}).get('verdict') == 'harness' and tw not in T['excluded']:
                diff_jobs[n] = tw
            else:
                out['inconclusive'].append('the differential twin %s of %s cannot be run (%s)' % (tw, n, (T['compile_violations'].get(tw) or [T['status'].get(tw, {}).get('driver', 'not built')])[0][:200]))
        # the comparison with the reference semantics is needed here only for the property's own post-conditions
        run = [n for n in run if prop in possible_labels(SCHEMAS[n])]
    results, diffs = {}, {}
    xtra = 1 if ctx.tier == 'thorough' else 0      # thorough: one byte beyond the schema's own bound where the table count allows
    with concurrent.futures.ThreadPoolExecutor(max_workers=14) as ex:
        esc = set(ctx.cache.get('escalate') or [])
        # a schema's enumeration does not depend on the property asking (labels are attributed afterwards): within one process
        # (`./check ALL`) each (schema, bound) is enumerated once
        ecache = T.setdefault('enum_cache', {})
        bounds = {n: sm.bound_for(SCHEMAS[n], THOROUGH_CAP if n in esc else cap, extra=xtra) for n in run}
        futs = {n: ex.submit(run_schema, T, n, bounds[n]) for n in run if (n, bounds[n]) not in ecache}
        dfuts = {n: ex.submit(run_diff, T, n, tw, sm.bound_for(SCHEMAS[n], cap, extra=xtra), DIFF[prop][1]) for n, tw in diff_jobs.items()}
        for n, f in futs.items(): ecache[(n, bounds[n])] = f.result()
        for n in run: results[n] = ecache[(n, bounds[n])]
        for n, f in dfuts.items(): diffs[n] = f.result()
    if prop in DIFF:
        for n, tw in diff_jobs.items():
            if not SCHEMAS[n].deep: continue
            o, m, c = SCHEMAS[n].deep
            p = subprocess.run([T['harness'], 'deep', n, tw, o, m, c], capture_output=True, text=True, timeout=1800)
            bad = re.findall(r'^T-DEEP-(?:DIFF|REJECT) .*$', p.stdout, re.M)
            if 'T-DEEP-PASS' in p.stdout:
                out.setdefault('deep_input_family', []).append({'schema': n, 'twin': tw, 'inputs': '%s^k %s %s^k for k in 1..2000 (17 depths)' % (o, m, c), 'result': 'both parsers accept every text and agree'})
            elif bad:
                k = re.search(r' k=(\d+)', bad[0])
                rp = ctx.replay_path('T-%s-deep' % n)
                out['violations'].append({'id': 'T:%s:deep' % n, 'layer': 'T', 'schema': n, 'twin': tw, 'deep': [o, m, c, int(k.group(1)) if k else 0], 'label': prop, 'replay': rp, 'no_failing_input': False,
                                          'assertion': 'deep-input family', 'grammar': open(_ebnf_path(ctx, T, n)).read(), 'twin_grammar': open(_ebnf_path(ctx, T, tw)).read(),
                                          'what': 'schema %s [%s] on the nested text %s^k %s %s^k: %s' % (n, SCHEMAS[n].note, o, m, c, bad[0][:300])})
            else:
                out['inconclusive'].append('deep-input family of %s did not run: %s' % (n, (p.stdout + p.stderr)[-300:]))
    for n, d in diffs.items():
        s = SCHEMAS[n]
        if d['status'] == 'error':
            out['inconclusive'].append('schema %s: %s' % (n, d.get('why'))); continue
        out['schemas'].append({'schema': n, 'grammar': s.note, 'differential_twin': d['twin'], 'twin_grammar': open(_ebnf_path(ctx, T, d['twin'])).read(),
                               'compared': 'acceptance, bytes consumed, tree, positions' + (', error position' if d['full'] else ''),
                               'bound_n': d['n'], 'tables': d['tables'], 'valid': d['valid'], 'differing': d['differing'], 'wall_s': d['wall_s']})
        out['evaluations'] += d['valid']
        out['nontrivial'] += d['nontrivial']
        if len(out['samples']) < 5:
            out['samples'].append({'schema': n, 'grammar': open(_ebnf_path(ctx, T, n)).read(), 'twin': open(_ebnf_path(ctx, T, d['twin'])).read(),
                                   'bound': 'input <= %d bytes' % d['n'], 'operand_tables_compared': d['valid']})
        if d['status'] == 'fail':
            f = d['first']
            rp = ctx.replay_path('T-%s-diff' % n)
            out['violations'].append({'id': 'T:%s:diff' % n, 'layer': 'T', 'schema': n, 'twin': d['twin'], 'diff_full': d['full'], 'assertion': f['what'], 'label': prop,
                                      'replay': rp, 'no_failing_input': False, 'tables': f['tables'], 'kv': f['kv'], 'bound_n': d['n'],
                                      'grammar': open(_ebnf_path(ctx, T, n)).read(), 'twin_grammar': open(_ebnf_path(ctx, T, d['twin'])).read(),
                                      'what': 'schema %s [%s] %s (%s; %d of %d tables differ)\n  operands/input: %s' % (
                                          n, s.note, f['what'], SCHEMAS[d['twin']].note, d['differing'], d['valid'], f['tables'])})
    for n, r in results.items():
        s = SCHEMAS[n]
        if r['status'] == 'error':
            out['inconclusive'].append('schema %s: %s' % (n, r.get('why')))
            continue
        out['schemas'].append({'schema': n, 'grammar': s.note, 'bound_n': r['n'], 'tables': r['tables'], 'valid': r['valid'], 'accepted': r['accepted'],
                               'rejected': r['rejected'], 'wall_s': r['wall_s']})
        out['evaluations'] += r['valid']
        out['nontrivial'] += r['nontrivial']
        if len(out['samples']) < 5:
            out['samples'].append({'schema': n, 'grammar': open(_ebnf_path(ctx, T, n)).read(), 'bound': 'input <= %d bytes' % r['n'],
                                   'operand_tables_enumerated': r['valid'], 'accepted': r['accepted'], 'rejected': r['rejected']})
        for f in r['fails']:
            under = relabel(n, f['label'])
            if prop not in under:
                out.setdefault('other_property_failures', []).append({'schema': n, 'reported_under': under, 'what': f['what']})
                continue
            rp = ctx.replay_path('T-%s-%s' % (n, f['label']))
            out['violations'].append({'id': 'T:%s:%s' % (n, f['label']), 'layer': 'T', 'schema': n, 'assertion': f['what'], 'label': f['label'],
                                      'replay': rp, 'no_failing_input': False, 'tables': f['tables'], 'kv': f['kv'], 'bound_n': r['n'],
                                      'grammar': open(_ebnf_path(ctx, T, n)).read(),
                                      'what': 'schema %s [%s]: %s\n  operands/input: %s' % (n, s.note, f['what'], f['tables'])})
    # a relevant schema whose generated code does not compile cannot be run: undecided for this property (it is a C03 violation)
    for n in mine:
        if n in T['excluded'] and prop not in ('C03', STATIC_PROP.get(n)) and prop not in SCHEMAS[n].props:
            out['inconclusive'].append('schema %s cannot be run: its generated code does not compile (reported under C03): %s' % (n, T['compile_violations'].get(n, [''])[0][:200]))
    if not out['schemas'] and not out['violations'] and not out['static'] and prop != 'C03':
        out['inconclusive'].append('no schema was run for %s' % prop)
    out['prepare_s'] = T.get('prepare_s')
    return out
