"""replay of layer T / B violations"""
import json
import layer_t

def run(ctx, v, path):
    if v.get('layer') == 'T':
        T = layer_t.prepare(ctx)
        if T['errors']:
            print('cannot rebuild the harness:', T['errors'][:1]); return 2
        n = v['schema']
        if v.get('deep'):
            o, m, c, k = v['deep']
            import subprocess
            p = subprocess.run([T['harness'], 'deep', n, v['twin'], o, m, c, str(k)], capture_output=True, text=True, timeout=600)
            print(p.stdout.strip()[-400:])
            if 'T-DEEP-PASS' in p.stdout: return 0
            if 'T-DEEP-D' in p.stdout or 'T-DEEP-REJECT' in p.stdout:
                print('VIOLATION property=%s replay=%s' % (ctx.prop, path)); return 1
            return 2
        if 'kv' in v:
            if n in T.get('excluded', []):
                print('schema %s no longer compiles' % n); return 1
            if v.get('twin'):
                r = layer_t.replay_diff(T, n, v['twin'], v.get('diff_full', True), v['kv'])
            else:
                r = layer_t.replay(T, n, v['kv'])
            print('replay of schema %s on %s: %s %s' % (n, v.get('tables'), r['status'], r.get('what') or ''))
            if r['status'] == 'fail':
                print('VIOLATION property=%s replay=%s' % (ctx.prop, path)); return 1
            return 0 if r['status'] == 'pass' else 2
        # static / compile verdicts: re-evaluate
        t = layer_t.t_part(ctx, ctx.prop)
        same = [x for x in t['violations'] if x['id'] == v.get('id')]
        print('%s: %s' % (v.get('id'), 'still fails' if same else 'gone'))
        if same:
            print('VIOLATION property=%s replay=%s' % (ctx.prop, path)); return 1
        return 0
    if v.get('layer') == 'E':
        import layer_flags
        r = layer_flags.flags_part(ctx)
        if r['violations']:
            print('VIOLATION property=%s replay=%s' % (ctx.prop, path)); return 1
        return 2 if r['inconclusive'] else 0
    if v.get('layer') == 'B':
        import layer_b
        return layer_b.replay(ctx, v, path)
    print('no replay support for layer', v.get('layer')); return 2
