"""Twin harnesses (DESIGN §3.6): native exhaustive enumeration + Kani on the real runtime functions."""
import os, re, shutil, subprocess, time, json

TWIN_OF = {   # function under contract -> twin harness name (native) / kani harness
    'parse_char': ('parse_char', 'twin_parse_char'),
    'parse_Whitespace': ('parse_Whitespace', 'twin_parse_whitespace'),
    'parse_string_literal': ('parse_string_literal', 'twin_parse_string_literal'),
    'parse_character_literal': ('parse_character_literal', 'twin_parse_character_literal'),
    'parse_character_range': ('parse_character_range', 'twin_parse_character_range'),
    'parse_string_literal_insensitive': ('parse_string_literal_insensitive', None),   # Kani: no verdict within 40 min / 40 GB
    'parse_character_literal_insensitive': ('parse_character_literal_insensitive', 'twin_parse_character_literal_insensitive'),
    'parse_end_of_input': ('parse_end_of_input', 'twin_parse_end_of_input'),
    'ParseState::advance_safe': ('ParseState::advance_safe', 'twin_advance_safe'),
    'ParseState::advance': ('ParseState::advance', 'twin_advance'),
    'ParseState::slice_until': ('ParseState::slice_until', 'twin_slice_until'),
    'ParseState::range_until': ('ParseState::slice_until', 'twin_slice_until'),
    'ParseState::cache_key': ('ParseState::slice_until', 'twin_slice_until'),
    'ParseState::is_further_than': ('ParseState::slice_until', 'twin_slice_until'),
    'ParseState::record_error': ('ParseState::record_error', 'twin_record_error'),
    'ParseState::report_error': ('ParseState::record_error', 'twin_record_error'),
    'ParseState::report_farthest_error': ('ParseState::record_error', 'twin_record_error'),
    'ChoiceHelper::choice': ('ChoiceHelper::choice', 'twin_choice_helper'),
    'ChoiceHelper::end': ('ChoiceHelper::choice', 'twin_choice_helper'),
    'ChoiceHelper::new': ('ChoiceHelper::choice', 'twin_choice_helper'),
    'ParseState::new': ('ParseState::new', None),                                        # native only (no symbolic input needed beyond the alphabet)
    'ParseState::first_n_chars': ('ParseState::first_n_chars', None),                   # Kani: no verdict within 40 min
    'CacheEntries': ('CacheEntries', None),                                             # Kani: hashbrown internals, no verdict within 40 min
    'IndentedTracer': ('IndentedTracer', None),
    'IndentedTracer::print_trace_start': ('IndentedTracer', None),
    'IndentedTracer::print_trace_result': ('IndentedTracer', None),
    'IndentedTracer::print_informative': ('IndentedTracer', None),
    'IndentedTracer::new': ('IndentedTracer', None),
}
BOUND = 'inputs: every UTF-8 string of at most 4 bytes (Kani) / strings over a 20-symbol alphabet up to 4 bytes (native); literals <= 3 bytes; every char'

def prepare(ctx):
    """copy the crate into the scratch dir, pointing at ctx.repo; build natively"""
    if 'twin_dir' in ctx.cache: return ctx.cache['twin_dir']
    src = os.path.join(ctx.root, 'kani', 'runtime_cx')
    dst = os.path.join(ctx.scratch, 'twin')
    if os.path.exists(dst): shutil.rmtree(dst)
    shutil.copytree(os.path.join(src, 'src'), os.path.join(dst, 'src'))
    open(os.path.join(dst, 'Cargo.toml'), 'w').write(open(os.path.join(src, 'Cargo.toml.in')).read().replace('@REPO@', ctx.repo))
    lock = os.path.join(ctx.repo, 'Cargo.lock')
    if os.path.exists(lock): shutil.copy(lock, os.path.join(dst, 'Cargo.lock'))
    env = dict(os.environ, CARGO_NET_OFFLINE='true')
    p = subprocess.run(['cargo', 'build', '--offline', '--release', '--bin', 'twin'], cwd=dst, capture_output=True, text=True, env=env, timeout=900)
    if p.returncode != 0:
        ctx.cache['twin_dir'] = None
        ctx.cache['twin_build_error'] = p.stderr[-1500:]
        return None
    ctx.cache['twin_dir'] = dst
    return dst

def enumerate_native(ctx, fn, timeout=300):
    """returns dict(status='pass'|'fail'|'error', cases=.., why=.., case=.., kv=..)"""
    d = prepare(ctx)
    if d is None: return {'status': 'error', 'why': 'twin crate does not build against the tree: ' + ctx.cache.get('twin_build_error', '')}
    name = TWIN_OF[fn][0]
    try:
        p = subprocess.run([os.path.join(d, 'target', 'release', 'twin'), 'enumerate', name], capture_output=True, text=True, timeout=timeout)
    except subprocess.TimeoutExpired:
        return {'status': 'error', 'why': 'native twin timed out'}
    by_class = {}
    cases = None
    for line in p.stdout.split('\n'):
        m = re.match(r'TWIN-PASS (\S+) cases=(\d+)', line)
        if m: return {'status': 'pass', 'cases': int(m.group(2)), 'twin': name, 'by_class': {}}
        m = re.match(r'TWIN-DONE (\S+) cases=(\d+)', line)
        if m: cases = int(m.group(2))
        m = re.match(r'TWIN-FAIL (\S+) class=(\w+) (?:after=(\d+) )?why=(".*?") case=(\{.*?\})(?: kv=(.*))?$', line)
        if m:
            case = m.group(5)
            try: case = json.loads(case)
            except Exception: pass
            by_class.setdefault(m.group(2), {'why': json.loads(m.group(4)), 'case': case, 'kv': (m.group(6) or '').split(), 'after': int(m.group(3) or 0)})
    if by_class:
        first = min(by_class.values(), key=lambda x: x['after'])
        return {'status': 'fail', 'twin': name, 'why': first['why'], 'case': first['case'], 'kv': first['kv'], 'by_class': by_class, 'cases': cases}
    return {'status': 'error', 'why': 'no verdict from native twin: ' + (p.stdout + p.stderr)[-500:]}

def kani(ctx, fn, timeout=1200):
    d = prepare(ctx)
    if d is None: return {'status': 'error', 'why': 'twin crate does not build'}
    native, harness = TWIN_OF[fn]
    if harness is None: return {'status': 'error', 'why': 'no Kani harness for this twin (native only)'}
    env = dict(os.environ, CARGO_NET_OFFLINE='true')
    tdir = os.path.join(d, 'target-kani-' + harness)
    cmd = ['cargo', 'kani', '--harness', harness, '--target-dir', tdir, '-Z', 'concrete-playback', '--concrete-playback=print']
    t0 = time.time()
    try:
        p = subprocess.run(cmd, cwd=d, capture_output=True, text=True, env=env, timeout=timeout)
    except subprocess.TimeoutExpired:
        shutil.rmtree(tdir, ignore_errors=True)
        return {'status': 'error', 'why': 'kani twin timed out after %ds' % timeout, 'harness': harness}
    out = p.stdout + p.stderr
    shutil.rmtree(tdir, ignore_errors=True)
    res = {'harness': harness, 'cmd': 'CARGO_NET_OFFLINE=true ' + ' '.join(cmd), 'wall_s': round(time.time() - t0, 1), 'bound': BOUND}
    m = re.search(r'\*\* (\d+) of (\d+) failed', out)
    if m: res['checks'] = int(m.group(2)); res['failed_checks'] = int(m.group(1))
    if 'VERIFICATION:- SUCCESSFUL' in out:
        res['status'] = 'pass'; return res
    if 'VERIFICATION:- FAILED' in out:
        failed_desc = re.findall(r'Status: FAILURE\s*\n\s*- Description: "(.*?)"\s*\n', out)
        res['failed_descriptions'] = failed_desc[:8]
        vals = []
        mm = re.search(r'let concrete_vals: Vec<Vec<u8>> = vec!\[(.*?)\];', out, re.S)
        if mm:
            for v in re.findall(r'vec!\[([0-9, ]*)\]', mm.group(1)):
                vals.append([int(x) for x in v.replace(' ', '').split(',') if x])
        res['concrete_vals'] = vals
        # only a failure of the contract assertion (or a panic / memory-safety check of the real function) counts
        real = [f for f in failed_desc if 'contract violated' in f or 'unwinding assertion' not in f]
        only_unsupported = failed_desc and all(('not currently supported' in f) or ('unwinding assertion' in f) for f in failed_desc)
        res['status'] = 'error' if only_unsupported else 'fail'
        if only_unsupported: res['why'] = 'kani: only unsupported-feature / unwinding failures: %s' % failed_desc[:3]
        return res
    res['status'] = 'error'; res['why'] = 'kani gave no verdict: ' + out[-600:]
    return res

def replay_vals(ctx, fn, vals):
    d = prepare(ctx)
    if d is None: return {'status': 'error', 'why': 'twin crate does not build'}
    arg = ';'.join(','.join(str(b) for b in v) for v in vals)
    p = subprocess.run([os.path.join(d, 'target', 'release', 'twin'), 'replay', TWIN_OF[fn][0], arg], capture_output=True, text=True, timeout=120)
    return _replay_result(p)

def replay_case(ctx, fn, kv):
    d = prepare(ctx)
    if d is None: return {'status': 'error', 'why': 'twin crate does not build'}
    p = subprocess.run([os.path.join(d, 'target', 'release', 'twin'), 'replay-case', TWIN_OF[fn][0]] + list(kv), capture_output=True, text=True, timeout=120)
    return _replay_result(p)

def _replay_result(p):
    out = p.stdout
    kv = None
    m = re.search(r'CASE-KV (.*)', out)
    if m: kv = m.group(1).split()
    m = re.search(r'REPLAY-(PASS|FAIL) (\S+) (?:why=(".*?") )?case=(\{.*\})', out)
    if m:
        case = m.group(4)
        try: case = json.loads(case)
        except Exception: pass
        return {'status': 'fail' if m.group(1) == 'FAIL' else 'pass', 'why': json.loads(m.group(3)) if m.group(3) else None, 'case': case, 'kv': kv}
    if 'REPLAY-INVALID' in out: return {'status': 'invalid'}
    return {'status': 'error', 'why': (out + p.stderr)[-400:]}
