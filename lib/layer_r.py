"""Layer R driver: extract -> verus -> attribute results to labelled clauses and properties."""
import os, sys, json, re, subprocess, time, concurrent.futures
HERE = os.path.dirname(os.path.abspath(__file__))
ROOT = os.path.dirname(HERE)
sys.path.insert(0, os.path.join(ROOT, 'extract'))
from extract import LostAnchor
import gen_runtime

UNIT_DEFAULT_PROP = {'runtime': 'C04', 'codegen': 'C12'}   # unlabelled safety failures (panic, overflow, bounds)
FN_DEFAULT_PROP = {'IndexedStringLineIterator::next': 'C11', 'IndexedStringLineIterator::new': 'C11'}   # 'converting ... never panics' is C11's own sentence
THM_RE = re.compile(r'thm_((?:C\d\d_)+)')

def verus_env():
    env = dict(os.environ)
    env.pop('RUSTUP_TOOLCHAIN', None)
    return env

def run_verus(path, extra=(), timeout=600):
    cmd = ['verus', os.path.basename(path), '--output-json', '--time', '--error-format=json',
           '--multiple-errors', '20'] + list(extra)
    t0 = time.time()
    try:
        p = subprocess.run(cmd, cwd=os.path.dirname(path), capture_output=True, text=True, timeout=timeout, env=verus_env())
    except subprocess.TimeoutExpired:
        return {'timeout': True, 'cmd': ' '.join(cmd), 'wall_s': time.time() - t0}
    out = {'cmd': ' '.join(cmd), 'rc': p.returncode, 'wall_s': time.time() - t0, 'stderr': p.stderr}
    try:
        out['json'] = json.loads(p.stdout)
    except Exception:
        out['json'] = None
        out['stdout'] = p.stdout[-4000:]
    diags = []
    for line in p.stderr.split('\n'):
        line = line.strip()
        if line.startswith('{') and '"$message_type"' in line:
            try:
                d = json.loads(line)
                if d.get('$message_type') == 'diagnostic':
                    diags.append(d)
            except Exception:
                pass
    out['diags'] = diags
    return out

def thm_fns(path):
    """proof fns of the theorems part: name -> (line, props)"""
    res = {}
    for i, l in enumerate(open(path).read().split('\n'), 1):
        m = re.search(r'proof fn (thm_[A-Za-z0-9_]+)', l)
        if m:
            pm = THM_RE.match(m.group(1))
            props = [p for p in pm.group(1).split('_') if p] if pm else []
            res[m.group(1)] = (i, props)
    return res

def fn_of_line(index, line):
    for f in index['fns']:
        if f['line_lo'] <= line <= f['line_hi']:
            return f['name']
    return None

def clause_of_line(index, line):
    for c in index['clauses']:
        if c['line_lo'] <= line <= c['line_hi']:
            return c
    return None

def analyse(unit, path, index, vr):
    """Returns dict with per-clause status, failures (attributed), inconclusive reasons."""
    res = {'unit': unit, 'failures': [], 'inconclusive': [], 'fn_status': {}, 'theorems': {}, 'times': {}}
    base = os.path.basename(path)
    if vr.get('timeout'):
        res['inconclusive'].append('verus timed out on unit %s' % unit)
        return res
    j = vr.get('json')
    if not j or 'verification-results' not in j:
        res['inconclusive'].append('verus produced no result for unit %s: %s' % (unit, (vr.get('stderr') or '')[-600:]))
        return res
    vres = j['verification-results']
    # rustc / VIR level errors: nothing was verified
    hard = [d for d in vr['diags'] if d['level'] == 'error' and not is_proof_failure(d)]
    if vres.get('encountered-vir-error') or (hard and not vres.get('verified')):
        for d in hard[:5]:
            res['inconclusive'].append('verus rejected unit %s: %s' % (unit, d['message'][:300]))
        if not hard:
            res['inconclusive'].append('verus VIR error in unit %s' % unit)
        res['hard_error_fns'] = sorted({fn_of_line(index, sp['line_start']) or '?' for d in hard for sp in d['spans']
                                        if sp['file_name'].endswith(base)})
        return res
    # function breakdown
    try:
        for m in j['times-ms']['smt']['smt-run-module-times']:
            for fb in m.get('function-breakdown', []):
                name = fb['function'].split('::', 1)[1] if '::' in fb['function'] else fb['function']
                res['fn_status'][name] = {'success': fb['success'], 'time_ms': fb['time'], 'rlimit': fb['rlimit'], 'mode': fb.get('mode:', '')}
    except Exception as e:
        res['inconclusive'].append('cannot read function breakdown: %r' % e)
    res['verified'] = vres.get('verified'); res['errors'] = vres.get('errors')
    thms = thm_fns(path)
    for d in vr['diags']:
        if d['level'] != 'error': continue
        msg = d['message']
        if msg.startswith('aborting due to'): continue
        def _callsite(sp):
            # a span inside a macro expansion (panic!, assert!) points into the macro's definition: follow the
            # expansion chain to the invocation in our file
            seen = 0
            while sp is not None and not sp['file_name'].endswith(base) and seen < 8:
                ex = sp.get('expansion')
                sp = ex.get('span') if ex else None
                seen += 1
            return sp
        d['spans'] = [(_callsite(sp) or sp) for sp in d['spans']]
        spans = [sp for sp in d['spans'] if sp['file_name'].endswith(base)]
        prim = [sp for sp in d['spans'] if sp.get('is_primary')]
        pline = prim[0]['line_start'] if prim and prim[0]['file_name'].endswith(base) else (spans[0]['line_start'] if spans else None)
        in_fn = fn_of_line(index, pline) if pline else None
        if in_fn is None:
            for sp in spans:
                g = fn_of_line(index, sp['line_start'])
                if g: in_fn = g; pline = sp['line_start']; break
        modes = {f['name']: f.get('mode') for f in index['fns']}
        if in_fn and modes.get(in_fn) == 'no-contract' and clause_of_line(index, pline) is None and not any(
                clause_of_line(index, sp['line_start']) for sp in spans):
            # a function of an extracted impl that has no contract (e.g. a helper introduced by a refactoring): what
            # Verus cannot show about it on its own is not an obligation of any property here
            res.setdefault('uncontracted_fn_errors', []).append('%s: %s' % (in_fn, d['message'][:120]))
            continue
        in_thm = None
        if pline and in_fn is None:
            # inside theorems / speclib?
            best = None
            for name, (ln, props) in thms.items():
                if ln <= pline and (best is None or ln > best[1]): best = (name, ln, props)
            if best and pline >= index['theorems_from']: in_thm = best
        rendered = d.get('rendered', '')[:1500]
        if 'Resource limit' in msg or 'rlimit' in msg:
            res['inconclusive'].append('rlimit exceeded in %s' % (in_fn or (in_thm[0] if in_thm else '?')))
            continue
        if not is_proof_failure(d):
            res['inconclusive'].append('verus error (not a proof failure) in %s: %s' % (in_fn or '?', msg[:200]))
            continue
        clause = None
        for sp in d['spans']:
            if not sp['file_name'].endswith(base): continue
            c = clause_of_line(index, sp['line_start'])
            if c is not None and (sp.get('label') or sp.get('is_primary')):
                clause = c; break
        f = {'unit': unit, 'message': msg, 'in_fn': in_fn, 'line': pline, 'rendered': rendered}
        if clause is not None:
            f.update({'label': clause['label'], 'props': clause['props'], 'clause_fn': clause['fn'], 'kind': clause['kind']})
            res['failures'].append(f)
        elif in_thm is not None:
            f.update({'label': in_thm[0], 'props': in_thm[2], 'clause_fn': 'theorem', 'kind': 'theorem'})
            res['failures'].append(f)
        elif in_fn is not None and ('overflow' in msg or 'precondition not satisfied' in msg):
            # unlabelled safety obligation inside an extracted function: arithmetic, panic!, unwrap, index bounds
            f.update({'label': 'safety:' + safety_kind(d), 'props': [FN_DEFAULT_PROP.get(in_fn, UNIT_DEFAULT_PROP[unit])], 'clause_fn': in_fn, 'kind': 'safety'})
            res['failures'].append(f)
        elif in_fn is not None and 'assertion failed' in msg:
            res['inconclusive'].append('ghost hint assertion failed in %s (proof broke; undecided)' % in_fn)
        else:
            res['inconclusive'].append('unattributed verifier error at line %s: %s' % (pline, msg[:200]))
    for name, (ln, props) in thms.items():
        st = None
        for k, v in res['fn_status'].items():
            if k.endswith('::' + name) or k == name: st = v
        res['theorems'][name] = {'props': props, 'status': st}
    return res

def is_proof_failure(d):
    m = d['message']
    return any(k in m for k in ('postcondition not satisfied', 'precondition not satisfied', 'invariant not satisfied',
                                'possible arithmetic underflow/overflow', 'assertion failed', 'Resource limit',
                                'loop ensures', 'decreases not satisfied', 'possible division by zero',
                                'could not prove termination', 'recommendation not met')) or m.startswith('aborting due to')

def safety_kind(d):
    m = d['message']
    if 'overflow' in m: return 'arithmetic-overflow'
    r = d.get('rendered', '')
    if 'panic' in r: return 'reachable-panic'
    if 'unwrap' in r: return 'unwrap-on-none'
    if 'slice' in r or 'index' in r: return 'index-out-of-bounds'
    return 'callee-precondition'

def scan_assumptions(path):
    """mechanical scan for everything that is assumed rather than proved"""
    found = []
    pats = [r'\bassume\s*\(', r'\badmit\s*\(', r'external_body', r'assume_specification', r'verifier::external',
            r'\baxiom fn\b', r'uninterp spec fn']
    for i, l in enumerate(open(path).read().split('\n'), 1):
        code = l.split('//')[0]
        for p in pats:
            if re.search(p, code):
                found.append({'line': i, 'text': l.strip()[:160]})
                break
    return found

def run_unit(repo, scratch, unit, extra=(), canary=None, tag=''):
    outdir = os.path.join(scratch, 'R' + tag)
    force = {}
    for attempt in range(4):
        path, index = gen_runtime.generate(repo, outdir, unit, canary=canary, force_assume=force)
        vr = run_verus(path, extra)
        an = analyse(unit, path, index, vr)
        # Verus rejected a construct inside specific extracted functions: put those out of reach and retry,
        # so that every other function is still verified (modularly, against the rejected function's contract)
        bad = [f for f in an.get('hard_error_fns', []) if f != '?' and f not in force]
        contracted = {f['name'] for f in index['fns'] if f['mode'] in ('verify',)}
        bad = [f for f in bad if f in contracted]
        if not bad: break
        for f in bad:
            force[f] = 'Verus rejects the function: ' + '; '.join(an['inconclusive'])[:300]
    an['path'] = path; an['index'] = index; an['verus_cmd'] = vr.get('cmd'); an['wall_s'] = vr.get('wall_s')
    an['assumptions'] = scan_assumptions(path)
    return an

def run_canary(repo, scratch, unit, key, n):
    """a copy of the unit where fn `key` additionally ensures false must FAIL in that function"""
    try:
        an = run_unit(repo, scratch, unit, canary=key, tag='_canary_%s_%d' % (unit, n))
    except LostAnchor as e:
        return {'key': key, 'ok': False, 'why': 'lost anchor %s' % e}
    hit = [f for f in an['failures'] if f.get('label') == 'CANARY']
    return {'key': key, 'ok': bool(hit), 'why': '' if hit else 'canary verified (vacuous contract?) or unit failed: %s' % an['inconclusive'][:1]}
