"""Layer B (DESIGN §6 C11): bounded exhaustive replay of an executable contract on the real
PrettyParseError::from_parse_error. Labelled bounded; never counted as proved."""
import os, re, json, shutil, subprocess, time

def prepare(ctx):
    if 'B' in ctx.cache: return ctx.cache['B']
    src = os.path.join(ctx.root, 'bounded', 'pretty')
    dst = os.path.join(ctx.scratch, 'pretty')
    shutil.rmtree(dst, ignore_errors=True)
    shutil.copytree(os.path.join(src, 'src'), os.path.join(dst, 'src'))
    open(os.path.join(dst, 'Cargo.toml'), 'w').write(open(os.path.join(src, 'Cargo.toml.in')).read().replace('@REPO@', ctx.repo))
    lock = os.path.join(ctx.repo, 'Cargo.lock')
    if os.path.exists(lock): shutil.copy(lock, os.path.join(dst, 'Cargo.lock'))
    p = subprocess.run(['cargo', 'build', '--offline', '--release'], cwd=dst, capture_output=True, text=True,
                       env=dict(os.environ, CARGO_NET_OFFLINE='true'), timeout=900)
    B = {'bin': os.path.join(dst, 'target', 'release', 'pretty_contract') if p.returncode == 0 else None, 'err': p.stderr[-800:]}
    ctx.cache['B'] = B
    return B

def b_part(ctx):
    out = {'violations': [], 'inconclusive': [], 'coverage': {}}
    B = prepare(ctx)
    if not B['bin']:
        out['inconclusive'].append('layer B crate does not build against the tree: ' + B['err']); return out
    maxlen = 7 if ctx.tier == 'thorough' else 5
    t0 = time.time()
    p = subprocess.run([B['bin'], 'enumerate', str(maxlen)], capture_output=True, text=True, timeout=3600)
    fails = []
    for l in p.stdout.split('\n'):
        m = re.match(r'B-FAIL text=(".*?") hex=(\w*) pos=(\d+) file=(\S+) why=(".*")$', l)
        if m: fails.append({'text': json.loads(m.group(1)) if _json_ok(m.group(1)) else m.group(1), 'hex': m.group(2), 'pos': int(m.group(3)), 'file': m.group(4), 'why': _unq(m.group(5))})
    m = re.search(r'B-DONE maxlen=(\d+) texts=(\d+) cases=(\d+) multiline_cases=(\d+) failures=(\d+)', p.stdout)
    if not m:
        out['inconclusive'].append('layer B produced no verdict: ' + (p.stdout + p.stderr)[-400:]); return out
    out['coverage'] = {'evaluations': int(m.group(3)), 'distinct_nontrivial': int(m.group(4)), 'texts': int(m.group(2)), 'max_text_chars': maxlen,
                       'alphabet': ['a', 'é', '€', '\\n', ' ', '\\r', '\\t'], 'failures': int(m.group(5)), 'wall_s': round(time.time() - t0, 2),
                       'rule': 'every text over the 7-symbol alphabet up to the length bound x every char-boundary position 0..=len x with/without file name, '
                               'each distinct; non-trivial = text contains a newline',
                       'exhaustive': True,
                       'samples': [{'text': 'a\\né', 'position': 2, 'file': None, 'contract': 'Line 2 character 1, prints "é", caret under column 1'},
                                   {'text': '', 'position': 0, 'file': 'g.ebnf', 'contract': 'g.ebnf:1:1, prints empty line'}]}
    # long lines: a fixed family (not exhaustive): k x 'a', "x\\n" + k x 'a' + "\\ny", k x 'é' for k around 2^8 and 2^16
    pl = subprocess.run([B['bin'], 'long'], capture_output=True, text=True, timeout=3600)
    ml = re.search(r'B-LONG-DONE cases=(\d+) failures=(\d+)', pl.stdout)
    if not ml:
        out['inconclusive'].append('layer B long-line family produced no verdict: ' + (pl.stdout + pl.stderr)[-300:])
    else:
        out['coverage']['long_line_cases'] = int(ml.group(1))
        out['coverage']['long_line_family'] = 'texts a^k, x\\n a^k \\ny, é^k for k in {255,256,257,65534..65537,70000}; positions around 0, 2^8, 2^16, the end; with/without file (a fixed family, not exhaustive)'
        out['coverage']['evaluations'] += int(ml.group(1))
        longfails = re.findall(r'B-FAIL-LONG kind=(\d+) k=(\d+) pos=(\d+) file=(\S+) why=(".*")', pl.stdout)
        seen = set()
        for kind, k, pos, file, why in longfails:
            if (kind, k, pos) in seen: continue
            seen.add((kind, k, pos))
            if len(seen) > 3: break
            rp = ctx.replay_path('B-long-%s-%s-%s' % (kind, k, pos))
            out['violations'].append({'id': 'B:long:%s:%s:%s' % (kind, k, pos), 'layer': 'B', 'long': [int(kind), int(k), int(pos)], 'file': file, 'replay': rp,
                                      'no_failing_input': False, 'long_line': True,
                                      'what': 'from_parse_error(text=%s, position=%s, file=%s): %s (%s failing long-line cases in total)' % (
                                          ['"a" x %s' % k, '"x\\n" + "a" x %s + "\\ny"' % k, '"é" x %s' % k][int(kind)], pos, file, _unq(why), ml.group(2))})
    for f in fails[:6]:
        rp = ctx.replay_path('B-%s-%d-%s' % (f['hex'] or 'empty', f['pos'], 'f' if f['file'] != '-' else 'n'))
        out['violations'].append({'id': 'B:%s:%d:%s' % (f['hex'], f['pos'], f['file']), 'layer': 'B', 'text_hex': f['hex'], 'text': f['text'], 'position': f['pos'],
                                  'file': f['file'], 'replay': rp, 'no_failing_input': False,
                                  'what': 'from_parse_error(text=%r, position=%d, file=%s): %s%s' % (f['text'], f['pos'], f['file'], f['why'],
                                                                                             '' if len(fails) <= 6 else ' (%d failing cases in total)' % len(fails))})
    return out

def _json_ok(s):
    try: json.loads(s); return True
    except Exception: return False
def _unq(s):
    try: return json.loads(s)
    except Exception: return s

def replay(ctx, v, path):
    B = prepare(ctx)
    if not B['bin']: print('cannot build layer B crate'); return 2
    if v.get('long'):
        p = subprocess.run([B['bin'], 'replay-long'] + [str(x) for x in v['long']] + [v['file']], capture_output=True, text=True, timeout=60)
    else:
        p = subprocess.run([B['bin'], 'replay', v.get('text_hex', ''), str(v['position']), v['file']], capture_output=True, text=True, timeout=60)
    print(p.stdout.strip())
    if 'B-REPLAY-FAIL' in p.stdout:
        print('VIOLATION property=%s replay=%s' % (ctx.prop, path)); return 1
    return 0 if 'B-REPLAY-PASS' in p.stdout else 2
