"""Rule::flags() contract (C12, bounded): every directive vector of length <= 4 over the seven directive kinds."""
import os, re, shutil, subprocess, time

def flags_part(ctx):
    out = {'violations': [], 'inconclusive': [], 'coverage': {}}
    src = os.path.join(ctx.root, 'kani', 'flags')
    dst = os.path.join(ctx.scratch, 'flags')
    shutil.rmtree(dst, ignore_errors=True)
    shutil.copytree(os.path.join(src, 'src'), os.path.join(dst, 'src'))
    open(os.path.join(dst, 'Cargo.toml'), 'w').write(open(os.path.join(src, 'Cargo.toml.in')).read().replace('@REPO@', ctx.repo))
    lock = os.path.join(ctx.repo, 'Cargo.lock')
    if os.path.exists(lock): shutil.copy(lock, os.path.join(dst, 'Cargo.lock'))
    t0 = time.time()
    # reuse the layer-T driver's target dir when present (same dependency: the codegen crate)
    env = dict(os.environ, CARGO_NET_OFFLINE='true')
    drv_target = os.path.join(ctx.scratch, 'drv', 'target')
    if os.path.isdir(drv_target): env['CARGO_TARGET_DIR'] = drv_target
    p = subprocess.run(['cargo', 'build', '--offline', '--release', '--bin', 'flags'], cwd=dst, capture_output=True, text=True, env=env, timeout=1200)
    if p.returncode != 0:
        out['inconclusive'].append('Rule::flags harness does not build against the tree (Rule/DirectiveExpression changed?): ' + p.stderr[-500:])
        return out
    binp = os.path.join(env.get('CARGO_TARGET_DIR', os.path.join(dst, 'target')), 'release', 'flags')
    r = subprocess.run([binp], capture_output=True, text=True, timeout=300)
    m = re.search(r'FLAGS-PASS vectors=(\d+)', r.stdout)
    if m:
        out['coverage'] = {'rule_flags_vectors': int(m.group(1)), 'bound': 'directive vectors of length <= 4 over all 7 directive kinds, exhaustive', 'wall_s': round(time.time() - t0, 1)}
        return out
    m = re.search(r'FLAGS-FAIL kinds=(\[.*?\]) why=(".*")', r.stdout)
    if m:
        rp = ctx.replay_path('E-flags')
        out['violations'].append({'id': 'E:flags', 'layer': 'E', 'kinds': m.group(1), 'replay': rp, 'no_failing_input': False,
                                  'what': 'Rule::flags() on directives %s (0=@check 1=@export 2=@leftrec 3=@memoize 4=@no_skip_ws 5=@position 6=@string): %s' % (m.group(1), m.group(2))})
        return out
    out['inconclusive'].append('Rule::flags harness gave no verdict: ' + (r.stdout + r.stderr)[-300:])
    return out


DECODER_FNS = ('HexaEscape_to_char::from', 'SimpleEscape_to_char::from', 'Utf8Escape_to_char::try_from')

def decoders_part(ctx, full=False):
    """complete (full) / large (quick) native check of the real escape decoders: stand-in when Verus cannot take them,
    counterexample finder when one of their obligations fails"""
    key = 'decoders_full' if full else 'decoders'
    if key in ctx.cache: return ctx.cache[key]
    out = {'status': 'error', 'why': None}
    ctx.cache[key] = out
    src = os.path.join(ctx.root, 'kani', 'flags')
    dst = os.path.join(ctx.scratch, 'flags')
    if not os.path.exists(dst):
        shutil.copytree(os.path.join(src, 'src'), os.path.join(dst, 'src'))
        open(os.path.join(dst, 'Cargo.toml'), 'w').write(open(os.path.join(src, 'Cargo.toml.in')).read().replace('@REPO@', ctx.repo))
        lock = os.path.join(ctx.repo, 'Cargo.lock')
        if os.path.exists(lock): shutil.copy(lock, os.path.join(dst, 'Cargo.lock'))
    env = dict(os.environ, CARGO_NET_OFFLINE='true')
    drv_target = os.path.join(ctx.scratch, 'drv', 'target')
    if os.path.isdir(drv_target): env['CARGO_TARGET_DIR'] = drv_target
    p = subprocess.run(['cargo', 'build', '--offline', '--release', '--bin', 'decoders'], cwd=dst, capture_output=True, text=True, env=env, timeout=1200)
    if p.returncode != 0:
        out['why'] = 'decoder harness does not build: ' + p.stderr[-300:]; return out
    binp = os.path.join(env.get('CARGO_TARGET_DIR', os.path.join(dst, 'target')), 'release', 'decoders')
    t0 = time.time()
    r = subprocess.run([binp] + (['full'] if full else []), capture_output=True, text=True, timeout=3600)
    m = re.search(r'DECODERS-PASS cases=(\d+) mode=(\w+)', r.stdout)
    if m:
        out.update({'status': 'pass', 'cases': int(m.group(1)), 'mode': m.group(2), 'wall_s': round(time.time() - t0, 1),
                    'bound': 'every \\xXX, every simple escape, \\u escapes of 1..6 hex digits: complete in full mode (118.8M), digits 5 and 6 restricted in quick mode'})
        return out
    m = re.search(r'DECODERS-FAIL (.*)', r.stdout)
    if m:
        out.update({'status': 'fail', 'case': m.group(1)}); return out
    out['why'] = (r.stdout + r.stderr)[-300:]
    return out
