"""./check <ID> --replay <file>: re-execute a recorded violation against the current tree.
exit 1 iff the violation is still there, 0 if it is gone, 2 if it cannot be decided."""
import json, sys
import twin

def run(ctx, path):
    v = json.load(open(path))
    layer = v.get('layer', '')
    if layer.startswith('R'):
        fi = v.get('failing_input')
        fn = v.get('in_fn') or v.get('clause_fn')
        if fi and fi.get('kv') and fn in twin.TWIN_OF:
            r = twin.replay_case(ctx, fn, fi['kv'])
            print('replay of %s on %s: %s %s' % (json.dumps(fi.get('case')), fn, r['status'], r.get('why') or ''))
            if r['status'] == 'fail':
                print('VIOLATION property=%s replay=%s' % (ctx.prop, path)); return 1
            return 0 if r['status'] == 'pass' else 2
        # no concrete input: re-run the verifier and look for the same obligation
        import props
        res = props.r_part(ctx, ctx.prop)
        same = [x for x in res['violations'] if x['obligation'] == v.get('obligation')]
        print('obligation [%s]: %s' % (v.get('obligation'), 'still fails' if same else 'discharged (or undecided: %s)' % res['inconclusive']))
        if same:
            print('VIOLATION property=%s replay=%s no-failing-input-found' % (ctx.prop, path)); return 1
        return 2 if res['inconclusive'] else 0
    try:
        import replay_ext
        return replay_ext.run(ctx, v, path)
    except ImportError:
        print('no replay support for layer', layer); return 2
