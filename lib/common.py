import os, json, re, time, hashlib

class Ctx:
    def __init__(self, **kw):
        self.__dict__.update(kw)
        self.cache = {}
    def replay_path(self, slug):
        d = os.environ.get('VERIF_REPLAY_DIR') or os.path.join(self.root, 'replays')
        os.makedirs(d, exist_ok=True)
        slug = re.sub(r'[^A-Za-z0-9_.-]+', '_', slug)[:120]
        return os.path.join(d, '%s-%s.json' % (self.prop, slug))

def load_findings(root):
    p = os.path.join(root, 'known_findings.json')
    if not os.path.exists(p): return []
    return json.load(open(p)).get('findings', [])

def finding_matches(f, prop, v):
    if f.get('status') != 'finding' or f.get('property') != prop: return False
    for k, want in f.get('match', {}).items():
        if v.get(k) != want: return False
    return True

def report(ctx, result, findings):
    """prints VIOLATION / KNOWN-FINDING lines, returns exit code"""
    new = 0
    known = 0
    for v in result.get('violations', []):
        hit = [f for f in findings if finding_matches(f, ctx.prop, v)]
        if hit:
            known += 1
            v['known_finding'] = True
            print('KNOWN-FINDING: property=%s %s' % (ctx.prop, hit[0].get('what', v.get('what', ''))))
        else:
            new += 1
            line = 'VIOLATION property=%s replay=%s' % (ctx.prop, v.get('replay', 'none'))
            if v.get('no_failing_input'):
                line += ' obligation=%s no-failing-input-found' % v.get('id', '?')
            print(line)
            if v.get('what'): print('  ' + v['what'].replace('\n', '\n  ')[:2000])
    result['violations_new'] = new
    result['violations_known'] = known
    for s in result.get('inconclusive', []):
        print('INCONCLUSIVE property=%s: %s' % (ctx.prop, s))
    for s in result.get('notes', []):
        print('note: ' + s)
    if new: return 1
    if result.get('inconclusive'): return 2
    print('OK property=%s tier=%s %s' % (ctx.prop, ctx.tier, result.get('summary', '')))
    return 0

def write_evidence(ctx, result):
    cov = dict(result.get('coverage', {}))
    ev = {
        'property_id': ctx.prop,
        'tier': ctx.tier,
        'seed': ctx.seed,
        'level': result.get('level', 'other'),
        'coverage': cov,
        'assumptions': result.get('assumptions', []),
        'wall_s': result.get('wall_s', 0.0),
        'violations': result.get('violations_new', 0),
        'known_findings_reported': result.get('violations_known', 0),
        'inconclusive': result.get('inconclusive', []),
        'repo_state': result.get('repo_state'),
    }
    d = os.environ.get('VERIF_EVIDENCE_DIR') or os.path.join(ctx.root, 'evidence')   # override: campaign runs against a scratch copy must not touch the committed evidence
    os.makedirs(d, exist_ok=True)
    json.dump(ev, open(os.path.join(d, ctx.prop + '.json'), 'w'), indent=1, sort_keys=False)

def repo_state(repo):
    import subprocess
    try:
        head = subprocess.run(['git', '-C', repo, 'rev-parse', 'HEAD'], capture_output=True, text=True).stdout.strip()
        dirty = subprocess.run(['git', '-C', repo, 'status', '--porcelain', '--untracked-files=no'], capture_output=True, text=True).stdout.strip()
        return {'head': head, 'dirty_files': [l[3:] for l in dirty.split('\n') if l]}
    except Exception as e:
        return {'error': repr(e)}
