#!/usr/bin/env python3
"""Generate the layer-R Verus file from /repo. usage: gen_runtime.py <repo> <outdir>"""
import os, sys, json
HERE = os.path.dirname(os.path.abspath(__file__))
sys.path.insert(0, HERE)
from extract import Out, extract, parse_contracts, LostAnchor
from plan import RUNTIME_PLAN

def generate(repo, outdir, contracts_dir=None, canary=None):
    contracts_dir = contracts_dir or os.path.join(HERE, '..', 'contracts')
    contracts = parse_contracts(os.path.join(contracts_dir, 'runtime.contracts'))
    if canary:
        from extract import Clause
        key = tuple(canary)
        if key not in contracts: raise LostAnchor('canary target %r missing' % (key,))
        contracts[key].clauses.append(Clause('ensures', 'CANARY', [], 'false'))
    out = Out()
    out.emit(open(os.path.join(contracts_dir, 'prelude.rs')).read().rstrip('\n'))
    out.emit('verus! {')
    out.emit('')
    speclib_lo = out.lineno
    out.emit(open(os.path.join(contracts_dir, 'speclib.rs')).read().rstrip('\n'))
    out.emit('')
    speclib_hi = out.lineno
    extract(repo, RUNTIME_PLAN, contracts, out)
    thm_lo = out.lineno
    out.emit(open(os.path.join(contracts_dir, 'theorems.rs')).read().rstrip('\n'))
    out.emit('')
    out.emit('} // verus!')
    out.emit('fn main() {}')
    os.makedirs(outdir, exist_ok=True)
    path = os.path.join(outdir, 'runtime_verus.rs')
    open(path, 'w').write('\n'.join(out.lines) + '\n')
    index = {'clauses': out.clause_index, 'fns': out.fn_index, 'log': out.log,
             'speclib_lines': [speclib_lo, speclib_hi], 'theorems_from': thm_lo}
    json.dump(index, open(os.path.join(outdir, 'runtime_index.json'), 'w'), indent=1)
    return path, index

if __name__ == '__main__':
    try:
        p, idx = generate(sys.argv[1], sys.argv[2])
        print(p, len(idx['fns']), 'fns', len(idx['clauses']), 'clauses')
    except LostAnchor as e:
        print('LOST-ANCHOR:', e); sys.exit(2)
