#!/usr/bin/env python3
"""Generate the layer-R Verus files from /repo. usage: gen_runtime.py <repo> <outdir> [unit]"""
import os, sys, json
HERE = os.path.dirname(os.path.abspath(__file__))
sys.path.insert(0, HERE)
from extract import Out, extract, parse_contracts, LostAnchor, Clause
from plan import RUNTIME_PLAN, CODEGEN_PLAN, G_RUNTIME_EXTRA
from extract import extract_generated
import subprocess, shutil

UNITS = {
    'runtime': {'plan': RUNTIME_PLAN, 'contracts': 'runtime.contracts', 'speclib': 'speclib.rs',
                'theorems': 'theorems.rs', 'out': 'runtime_verus.rs',
                'optional': {'pretty': 'runtime_pretty_speclib.rs'}},
    'codegen': {'plan': CODEGEN_PLAN, 'contracts': 'codegen.contracts', 'speclib': 'codegen_speclib.rs',
                'theorems': 'codegen_theorems.rs', 'out': 'codegen_verus.rs',
                'optional': {'flags': 'codegen_flags_speclib.rs'}},
}

def generate(repo, outdir, unit='runtime', contracts_dir=None, canary=None, force_assume=None):
    u = UNITS[unit]
    contracts_dir = contracts_dir or os.path.join(HERE, '..', 'contracts')
    contracts = parse_contracts(os.path.join(contracts_dir, u['contracts']))
    if canary:
        key = tuple(canary)
        if key not in contracts: raise LostAnchor('canary target %r missing' % (key,))
        contracts[key].clauses.append(Clause('ensures', 'CANARY', [], 'false'))
    out = Out()
    out.force_assume = dict(force_assume or {})
    out.emit(open(os.path.join(contracts_dir, 'prelude.rs')).read().rstrip('\n'))
    out.emit('verus! {')
    out.emit('')
    speclib_lo = out.lineno
    out.emit(open(os.path.join(contracts_dir, u['speclib'])).read().rstrip('\n'))
    out.emit('')
    speclib_hi = out.lineno
    extract(repo, u['plan'], contracts, out)
    thm_lo = out.lineno
    for grp, fname in u.get('optional', {}).items():
        if grp not in out.failed_groups:
            # vocabulary and theorems of an optional extraction group: only when its items were all found
            out.emit(open(os.path.join(contracts_dir, fname)).read().rstrip('\n'))
    out.emit(open(os.path.join(contracts_dir, u['theorems'])).read().rstrip('\n'))
    out.emit('')
    out.emit('} // verus!')
    out.emit('fn main() {}')
    os.makedirs(outdir, exist_ok=True)
    path = os.path.join(outdir, u['out'])
    open(path, 'w').write('\n'.join(out.lines) + '\n')
    index = {'unit': unit, 'clauses': out.clause_index, 'fns': out.fn_index, 'log': out.log,
             'unreachable': out.unreachable, 'speclib_lines': [speclib_lo, speclib_hi], 'theorems_from': thm_lo,
             'contract_keys': [list(k) for k in contracts]}
    json.dump(index, open(os.path.join(outdir, unit + '_index.json'), 'w'), indent=1)
    return path, index

def generate_g(repo, outdir, schema, gen_rs, contracts_dir=None, canary=None):
    """layer G unit: runtime unit (functions + contracts, no theorems) + the rustfmt-ed generated code of one schema"""
    contracts_dir = contracts_dir or os.path.join(HERE, '..', 'contracts')
    contracts = parse_contracts(os.path.join(contracts_dir, 'runtime.contracts'))
    gcontracts = parse_contracts(os.path.join(contracts_dir, 'g_%s.contracts' % schema))
    if canary:
        key = tuple(canary)
        if key not in gcontracts: raise LostAnchor('canary target %r missing' % (key,))
        gcontracts[key].clauses.append(Clause('ensures', 'CANARY', [], 'false'))
    os.makedirs(outdir, exist_ok=True)
    fmt = os.path.join(outdir, 'g_%s_generated.rs' % schema)
    shutil.copy(gen_rs, fmt)
    p = subprocess.run(['rustfmt', '--edition', '2021', fmt], capture_output=True, text=True)
    if p.returncode != 0: raise LostAnchor('rustfmt failed on the generated code of %s: %s' % (schema, p.stderr[-300:]))
    import extract as _ex
    out = Out()
    out.broadcast_stmt = 'broadcast use lib::group_lib; broadcast use glib::axiom_iter_items_vec;'
    # a schema's vocabulary file may ask for further proved library lemmas in its bodies (`// @broadcast glib::lemma_x`): kept
    # per schema, every extra broadcast lemma costs solver time in every body
    import re as _re
    for extra in _re.findall(r'^// @broadcast (\S+)', open(os.path.join(contracts_dir, 'g_%s_speclib.rs' % schema.split('__')[0])).read(), _re.M):
        out.broadcast_stmt += ' broadcast use %s;' % extra
    out.emit(open(os.path.join(contracts_dir, 'prelude.rs')).read().rstrip('\n').replace('#![feature(pattern)]', '#![feature(pattern)]\n#![feature(allocator_api)]'))
    out.emit('verus! {')
    out.emit('')
    out.emit(open(os.path.join(contracts_dir, 'speclib.rs')).read().rstrip('\n'))
    out.emit('')
    # the C11 group (line splitter of error.rs) is not needed next to generated code
    plan = [dict(e, items=[i for i in e['items'] if i.get('group') != 'pretty']) for e in RUNTIME_PLAN]
    contracts = {k: c for k, c in contracts.items() if k[1] != 'IndexedStringLineIterator'}
    extract(repo, [e for e in plan if e['items']] + G_RUNTIME_EXTRA, contracts, out)
    runtime_clause_count = len(out.clause_index)
    out.emit(open(os.path.join(contracts_dir, 'g_common_speclib.rs')).read().rstrip('\n'))
    # a differential twin is verified against the reference semantics of the schema it was derived from: the same file
    out.emit(open(os.path.join(contracts_dir, 'g_%s_speclib.rs' % schema.split('__')[0])).read().rstrip('\n'))
    out.emit('')
    extract_generated(open(fmt).read(), schema, gcontracts, out)
    out.emit('} // verus!')
    out.emit('fn main() {}')
    path = os.path.join(outdir, 'g_%s_verus.rs' % schema)
    open(path, 'w').write('\n'.join(out.lines) + '\n')
    index = {'unit': 'g_' + schema, 'clauses': out.clause_index[runtime_clause_count:], 'fns': out.fn_index, 'log': out.log,
             'unreachable': out.unreachable, 'speclib_lines': [0, 0], 'theorems_from': 10 ** 9,
             'contract_keys': [list(k) for k in gcontracts]}
    json.dump(index, open(os.path.join(outdir, 'g_%s_index.json' % schema), 'w'), indent=1)
    return path, index

if __name__ == '__main__':
    try:
        for unit in (sys.argv[3:] or ['runtime', 'codegen']):
            p, idx = generate(sys.argv[1], sys.argv[2], unit)
            print(p, len(idx['fns']), 'fns', len(idx['clauses']), 'clauses')
    except LostAnchor as e:
        print('LOST-ANCHOR:', e); sys.exit(2)
