#!/usr/bin/env python3
"""Mechanical extractor: copies named items byte-for-byte from /repo into one verus! file and
inserts the contracts stored in contracts/*.contracts between signature and body.

Everything this script changes with respect to the text rustc compiles is one of the rewrite
rules X1..X10 listed in DESIGN.md §3.2; every application is recorded in the extraction log that
goes into the evidence.  Anything unexpected raises LostAnchor -> the check exits 2.
"""
import os, re, sys, json, hashlib
sys.path.insert(0, os.path.dirname(os.path.abspath(__file__)))
from rustscan import items, lex_spans, strip_attrs_and_docs, ScanError, match_close, Item

class LostAnchor(Exception):
    pass

BROADCAST_IN_LOOPS = ['broadcast use lib::group_lib;']
# optional extraction groups -> the contract container they feed
GROUP_CONTAINERS = {'flags': 'Rule', 'pretty': 'IndexedStringLineIterator'}

# --------------------------------------------------------------------------------------
# contract files
# --------------------------------------------------------------------------------------
class Clause:
    def __init__(self, kind, label, props, text):
        self.kind, self.label, self.props, self.text = kind, label, props, text
        self.line_lo = self.line_hi = None

class Contract:
    def __init__(self, key):
        self.key = key            # (file, container, fn)
        self.ret = None
        self.clauses = []         # requires / ensures / decreases (function level)
        self.loops = {}           # ordinal -> [Clause]
        self.hints = []           # (anchor_text, position 'before'|'after', text)
        self.closure_specs = []   # (anchor_text, text) : clauses inserted after a closure's parameter list
        self.rewrites = []        # names of rewrite rules to apply (X3, X4)
        self.substs = []          # (rule, text, replacement): anchored textual substitutions (typed closure headers, X16)
        self.mode = 'verify'      # or 'assume' (external_body; X7)
        self.used = False

CLAUSE_RE = re.compile(r'^\s*\[([A-Z0-9,]*):([A-Za-z0-9_.\-]+)\]\s*(.*)$')

def parse_contracts(path):
    contracts = {}
    cur = None
    section = None      # ('fn', kind) or ('loop', n, kind)
    hint = None
    for ln, raw in enumerate(open(path).read().split('\n'), 1):
        line = raw.rstrip()
        if line.startswith('#') or (not line.strip() and hint is None):
            continue
        if line.startswith('@fn '):
            parts = line.split()
            if len(parts) != 4: raise LostAnchor('%s:%d bad @fn' % (path, ln))
            cur = Contract((parts[1], parts[2], parts[3]))
            if cur.key in contracts: raise LostAnchor('duplicate contract %r' % (cur.key,))
            contracts[cur.key] = cur
            section = None; hint = None
        elif line.startswith('@ret '):
            cur.ret = line.split()[1]
        elif line.startswith('@mode '):
            cur.mode = line.split()[1]
        elif line.startswith('@rewrite '):
            cur.rewrites.append(line.split()[1])
        elif line in ('@requires', '@ensures', '@decreases'):
            section = ('fn', line[1:]); hint = None
        elif line.startswith('@loop '):
            section = ('loop', int(line.split()[1]), None); hint = None
            cur.loops.setdefault(section[1], [])
        elif line in ('@invariant', '@loop_ensures', '@loop_decreases', '@invariant_except_break'):
            if not section or section[0] != 'loop': raise LostAnchor('%s:%d %s outside @loop' % (path, ln, line))
            kind = {'@invariant': 'invariant', '@loop_ensures': 'ensures', '@loop_decreases': 'decreases',
                    '@invariant_except_break': 'invariant_except_break'}[line]
            section = ('loop', section[1], kind); hint = None
        elif line.startswith('@hint '):
            m = re.match(r'@hint (before|after) "(.*)"$', line)
            if not m: raise LostAnchor('%s:%d bad @hint' % (path, ln))
            hint = [m.group(2), m.group(1), []]
            cur.hints.append(hint); section = None
        elif line.startswith('@closure '):
            m = re.match(r'@closure "(.*)"$', line)
            if not m: raise LostAnchor('%s:%d bad @closure' % (path, ln))
            hint = [m.group(1), 'closure', []]
            cur.closure_specs.append(hint); section = None
        elif line.startswith('@closure_wrap '):
            m = re.match(r'@closure_wrap "(.*)" "(.*)"$', line)
            if not m: raise LostAnchor('%s:%d bad @closure_wrap' % (path, ln))
            hint = [(m.group(1), m.group(2)), 'wrap', []]
            cur.closure_specs.append(hint); section = None
        elif line.startswith('@subst ') or line.startswith('@subst_all '):
            # @subst <rule> "<text as it stands (white space insensitive, exactly one occurrence)>" => "<replacement>"
            m = re.match(r'@subst(_all)? (\w+) "(.*)" => "(.*)"$', line)
            if not m: raise LostAnchor('%s:%d bad @subst' % (path, ln))
            cur.substs.append((m.group(2), m.group(3), m.group(4), bool(m.group(1))))
            section = None; hint = None
        elif line == '@end':
            cur = None; section = None; hint = None
        elif hint is not None:
            hint[2].append(raw)
        else:
            if section is None or cur is None:
                raise LostAnchor('%s:%d text outside a section: %r' % (path, ln, line))
            m = CLAUSE_RE.match(line)
            target = cur.clauses if section[0] == 'fn' else cur.loops[section[1]]
            kind = section[1] if section[0] == 'fn' else section[2]
            if m:
                props = [p for p in m.group(1).split(',') if p]
                target.append(Clause(kind, m.group(2), props, m.group(3)))
            else:
                if not target: raise LostAnchor('%s:%d continuation without clause' % (path, ln))
                target[-1].text += '\n        ' + line.strip()
    return contracts

# --------------------------------------------------------------------------------------
# emitting
# --------------------------------------------------------------------------------------
class Out:
    def __init__(self):
        self.lines = []
        self.clause_index = []   # dicts: label, props, kind, fn, line_lo, line_hi
        self.fn_index = []       # dicts: name, line_lo, line_hi, source file, mode
        self.log = []            # extraction log (rules applied)
        self.force_assume = {}   # qualified fn name -> reason (set by the driver after Verus rejected the fn)
        self.unreachable = {}    # qualified fn name -> reason
        self.failed_groups = {}  # optional group -> reason
        self.group_snaps = {}
        self.broadcast_stmt = 'broadcast use lib::group_lib;'
    def emit(self, text):
        for l in text.split('\n'):
            self.lines.append(l)
    def snapshot(self):
        return (len(self.lines), len(self.clause_index), len(self.fn_index), len(self.log), dict(self.unreachable))
    def rollback(self, snap):
        del self.lines[snap[0]:]; del self.clause_index[snap[1]:]; del self.fn_index[snap[2]:]; del self.log[snap[3]:]
        self.unreachable = snap[4]
    @property
    def lineno(self):
        return len(self.lines) + 1

def find_items(src, path):
    try:
        return items(src)
    except ScanError as e:
        raise LostAnchor('%s: %s' % (path, e))

def header_kind_name(header):
    """('fn','advance') / ('struct','ParseState') / ('impl', "impl<'a> ParseState<'a>") ..."""
    h = re.sub(r'\s+', ' ', header)
    m = re.match(r'(?:pub(?:\([a-z]+\))? )?(?:unsafe )?(?:const )?(fn|struct|enum|trait|type|mod|use|const|static) ([A-Za-z_0-9]+)', h)
    if m: return m.group(1), m.group(2)
    if h.startswith('impl'):
        return 'impl', h
    return 'other', h

def name_return(sig, ret, log, fn):
    """X10: name the return value:  -> T   becomes  -> (r: T)"""
    if ret is None:
        return sig
    # find the top-level '->' of the signature (after the parameter list)
    spans = lex_spans(sig)
    # locate the parameter list: first '(' after 'fn name<generics>'
    k = 0
    while not (spans[k][0] == 'word' and sig[spans[k][1]:spans[k][2]] == 'fn'): k += 1
    depth_angle = 0
    while True:
        k += 1
        kind, a, b = spans[k]
        if kind == 'punct' and sig[a] == '(' : break
    kc = match_close(sig, spans, k)
    j = kc + 1
    while j < len(spans) and spans[j][0] == 'ws': j += 1
    if j + 1 < len(spans) and sig[spans[j][1]] == '-' and sig[spans[j + 1][1]] == '>':
        tstart = spans[j + 1][2]
        # return type extends to 'where' at depth 0 or end
        depth = 0
        tend = len(sig)
        for q in range(j + 2, len(spans)):
            kind, a, b = spans[q]
            if kind == 'punct' and sig[a] in '(<[': depth += 1
            elif kind == 'punct' and sig[a] in ')>]':
                if not (sig[a] == '>' and sig[a - 1] == '-'): depth -= 1
            elif kind == 'word' and sig[a:b] == 'where' and depth == 0:
                tend = a; break
        rtype = sig[tstart:tend].strip()
        log.append({'rule': 'X10', 'fn': fn, 'what': 'return value named %s' % ret})
        return sig[:tstart] + ' (' + ret + ': ' + rtype + ')' + ('\n    ' if tend < len(sig) else '') + sig[tend:]
    raise LostAnchor('%s: @ret given but no return type' % fn)

def apply_rewrites(fn, sig, body, contract, log):
    for rw in contract.rewrites:
        if rw == 'X3':
            # fn f(mut self, ...) { B }  ->  fn f(self, ...) { let mut self_ = self; B[self -> self_] }
            if len(re.findall(r'\bmut self\b', sig)) != 1:
                raise LostAnchor('%s: X3 expects exactly one `mut self`' % fn)
            sig = re.sub(r"(&\s*(?:'\w+\s+)?)?\bmut self\b", lambda m: m.group(0) if m.group(1) else 'self', sig)   # not `&mut self`
            spans = lex_spans(body)
            nb = []
            for kind, a, b in spans:
                t = body[a:b]
                nb.append('self_' if (kind == 'word' and t == 'self') else t)
            body = '\n        let mut self_ = self;' + ''.join(nb)
            log.append({'rule': 'X3', 'fn': fn, 'what': '`mut self` rebinding'})
        elif rw == 'X4':
            if body.count('|_|') != 1:
                raise LostAnchor('%s: X4 expects exactly one `|_|`' % fn)
            body = body.replace('|_|', '|_x|')
            log.append({'rule': 'X4', 'fn': fn, 'what': 'closure parameter `_` named'})
        elif rw == 'X6':
            # anyhow!( ... )  ->  anyhow_error()   (message dropped, control flow kept)
            if body.count('anyhow!') != 1:
                raise LostAnchor('%s: X6 expects exactly one anyhow!' % fn)
            i = body.index('anyhow!')
            spans = lex_spans(body[i:])
            k0 = next(q for q, sp in enumerate(spans) if sp[0] == 'punct' and body[i + sp[1]] == '(')
            kc = match_close(body[i:], spans, k0)
            body = body[:i] + 'anyhow_error()' + body[i + spans[kc][2]:]
            log.append({'rule': 'X6', 'fn': fn, 'what': 'anyhow!(..) replaced by opaque constructor'})
        elif rw == 'X5':
            body, n = strip_eprintln(body, fn)
            log.append({'rule': 'X5', 'fn': fn, 'what': '%d eprintln!/indentation statements removed' % n})
        else:
            raise LostAnchor('%s: unknown rewrite %s' % (fn, rw))
    return sig, body

def strip_eprintln(body, fn):
    """X5: remove `eprintln!( ... );` statements (also as match-arm expressions `=> eprintln!(...),`)
    and `let indentation = "    ".repeat(...);` bindings."""
    n = 0
    out = body
    # let indentation = "    ".repeat(self.indentation_level);
    out, k = re.subn(r'[ \t]*let indentation = "    "\.repeat\(self\.indentation_level\);\n', '', out)
    n += k
    # eprintln!(...) invocations: find by scanning
    while True:
        i = out.find('eprintln!')
        if i < 0: break
        spans = lex_spans(out[i:])
        k0 = next(q for q, s in enumerate(spans) if s[0] == 'punct' and out[i + s[1]] == '(')
        kc = match_close(out[i:], spans, k0)
        end = i + spans[kc][2]
        rest = out[end:]
        if rest.lstrip().startswith(';'):
            end = end + rest.index(';') + 1
            # remove whole statement incl. leading whitespace on the line
            ls = out.rfind('\n', 0, i) + 1
            if out[ls:i].strip() == '':
                out = out[:ls] + out[end:].lstrip('\n') if out[end:end+1] == '\n' else out[:ls] + out[end:]
            else:
                out = out[:i] + out[end:]
        else:
            # expression position (match arm): replace by unit
            out = out[:i] + '()' + out[end:]
        n += 1
    return out, n

def emit_clauses(out, fnname, clauses, indent='    '):
    order = ['requires', 'invariant_except_break', 'invariant', 'ensures', 'decreases']
    for kind in order:
        cs = [c for c in clauses if c.kind == kind]
        if not cs: continue
        out.emit(indent + kind)
        for c in cs:
            lo = out.lineno
            out.emit(indent + '    ' + c.text + ',')
            hi = out.lineno - 1
            out.clause_index.append({'label': c.label, 'props': c.props, 'kind': kind, 'fn': fnname,
                                     'line_lo': lo, 'line_hi': hi})

def insert_loop_contracts(fn, body, contract, out_clause_sink):
    """X9: loop clauses go between `while <cond>` / `loop` and `{`. Returns body with markers
    replaced later, because line numbers are only known when emitting. We therefore split the
    body into chunks: [text, ('loop', n), text, ...]"""
    if not contract.loops:
        return [body]
    spans = lex_spans(body)
    chunks = []
    last = 0
    ordinal = 0
    k = 0
    n = len(spans)
    while k < n:
        kind, a, b = spans[k]
        if kind == 'word' and body[a:b] in ('while', 'loop', 'for'):
            # find the '{' that opens the loop body at paren depth 0
            depth = 0
            j = k + 1
            while j < n:
                kd, aa, bb = spans[j]
                if kd == 'punct':
                    ch = body[aa]
                    if ch in '([': depth += 1
                    elif ch in ')]': depth -= 1
                    elif ch == '{' and depth == 0: break
                j += 1
            if j >= n: raise LostAnchor('%s: loop without body' % fn)
            if ordinal in contract.loops:
                head = body[last:spans[j][1]]
                if body[a:b] == 'for':
                    # X9: a `for` loop under contract gets the ghost iterator name `it` (`for x in it: <expr>`)
                    kin = next((q for q in range(k + 1, j) if spans[q][0] == 'word' and body[spans[q][1]:spans[q][2]] == 'in'), None)
                    if kin is None: raise LostAnchor('%s: for loop without `in`' % fn)
                    cut = spans[kin][2] - last
                    head = head[:cut] + ' it:' + head[cut:]
                chunks.append(head.rstrip() + '\n')
                chunks.append(('loop', ordinal))
                # X11 also applies to loop bodies (Verus verifies them in isolation)
                chunks.append('{ proof { %s }' % out_clause_sink.broadcast_stmt)
                last = spans[j][1] + 1
            ordinal += 1
            k = j + 1
        else:
            k += 1
    chunks.append(body[last:])
    for o in contract.loops:
        if o >= ordinal: raise LostAnchor('%s: loop %d not found' % (fn, o))
    return chunks

def apply_substs(fn, body, contract, log):
    """@subst: the text must occur exactly once (white space insensitive); it is replaced verbatim. Used for what a ghost
    insertion cannot express: a closure parameter's type (X12) and the eta-expansion `Some` -> `|x| Some(x)` (X16)."""
    for rule, old, new, every in contract.substs:
        rx = re.compile(r'\s*'.join(re.escape(tok) for tok in re.findall(r'\w+|[^\w\s]', old)))
        ms = list(rx.finditer(body))
        if (len(ms) != 1 and not every) or not ms:
            raise LostAnchor('%s: @subst anchor %r occurs %d times' % (fn, old, len(ms)))
        for m in reversed(ms):      # @subst_all: every occurrence (at least one)
            body = body[:m.start()] + new + body[m.end():]
        log.append({'rule': rule, 'fn': fn, 'what': '%r -> %r' % (old, new)})
    return body

def apply_hints(fn, body, contract, log):
    body = apply_substs(fn, body, contract, log)
    for anchor, pos, text in contract.hints:
        if body.count(anchor) != 1:
            raise LostAnchor('%s: hint anchor %r occurs %d times' % (fn, anchor, body.count(anchor)))
        i = body.index(anchor)
        if pos == 'before':
            ls = body.rfind('\n', 0, i) + 1
            body = body[:ls] + '\n'.join(text) + '\n' + body[ls:]
        else:
            le = body.find('\n', i + len(anchor))
            if le < 0: le = len(body)
            body = body[:le + 1] + '\n'.join(text) + '\n' + body[le + 1:]
        log.append({'rule': 'X9', 'fn': fn, 'what': 'ghost proof block %s %r' % (pos, anchor)})
    for anchor, _pos, text in contract.closure_specs:
        if _pos == 'wrap':
            # X12: `|p| body`  ->  `|p: T| -> (q: U) requires .. ensures .. { body }` (types, ghost clauses, braces)
            params, cbody = anchor
            full = params + ' ' + cbody
            if body.count(full) != 1:
                raise LostAnchor('%s: closure %r occurs %d times' % (fn, full, body.count(full)))
            body = body.replace(full, ' '.join(t.strip() for t in text) + ' { ' + cbody + ' }')
            log.append({'rule': 'X12', 'fn': fn, 'what': 'closure %r given typed header and contract' % full})
            continue
        if body.count(anchor) != 1:
            raise LostAnchor('%s: closure anchor %r occurs %d times' % (fn, anchor, body.count(anchor)))
        i = body.index(anchor) + len(anchor)
        body = body[:i] + ' ' + ' '.join(t.strip() for t in text) + ' ' + body[i:]
        log.append({'rule': 'X9', 'fn': fn, 'what': 'ghost closure contract after %r' % anchor})
    return body

def emit_fn(out, item, relfile, container, contracts, in_trait_decl=False, indent='', as_free=None, sig_subst=None):
    kind, name = header_kind_name(item.header)
    key = (relfile, container, name)
    qual = (container + '::' if container != '-' else '') + name
    contract = contracts.get(key)
    kept_attrs, dropped = strip_attrs_and_docs(item.attrs)
    if dropped:
        out.log.append({'rule': 'X1', 'fn': qual, 'what': 'dropped ' + '; '.join(d.split('\n')[0][:50] for d in dropped)})
    sig = item.header
    body = item.body
    for a, b in (sig_subst or []):
        # X6: a type that only exists through the dropped trait relation (`Self::Item`) is spelled out
        if a in sig:
            sig = sig.replace(a, b)
            out.log.append({'rule': 'X6', 'fn': qual, 'what': 'signature: %r -> %r' % (a, b)})
    if as_free is not None:
        # X6: a trait-impl method is verified as a free function with the same parameters and body
        newname = as_free['prefix'] + '__' + name
        if len(re.findall(r'\bfn ' + name + r'\b', sig)) != 1: raise LostAnchor('%s: fn name not found' % qual)
        sig = re.sub(r'\bfn ' + name + r'\b', 'fn ' + newname, sig)
        for a, b in as_free.get('subst', []):
            sig = sig.replace(a, b)
        for a, b in as_free.get('body_subst', []):
            # X14: a method emitted as a function of the one field it reads: `self.<field>` -> the parameter
            if body is None or body.count(a) != 1: raise LostAnchor('%s: X14 expects exactly one %r in the body' % (qual, a))
            body = body.replace(a, b)
        if not sig.lstrip().startswith('pub'):
            sig = 'pub ' + sig.lstrip()
        out.log.append({'rule': 'X6', 'fn': qual, 'what': 'trait-impl method emitted as free fn %s; %s' % (newname, as_free.get('subst', []))})
    lo = out.lineno
    if contract is None:
        # no contract: extracted verbatim (Verus still checks panics / overflow / callee preconditions)
        out.emit(indent + sig + (' {' + body + '}' if body is not None else ';'))
        out.fn_index.append({'name': qual, 'file': relfile, 'line_lo': lo, 'line_hi': out.lineno - 1, 'mode': 'no-contract'})
        return
    contract.used = True
    forced = qual in getattr(out, 'force_assume', {})
    fallback_reason = out.force_assume.get(qual) if forced else None
    chunks = None
    osig, obody = sig, body
    if not forced:
        try:
            if body is not None:
                sig, body = apply_rewrites(qual, sig, body, contract, out.log)
            sig = name_return(sig, contract.ret, out.log, qual)
            if body is not None and contract.mode not in ('assume', 'bounded'):
                body = apply_hints(qual, body, contract, out.log)
                chunks = insert_loop_contracts(qual, body, contract, out)
        except LostAnchor as e:
            fallback_reason = 'lost anchor: %s' % e
    if fallback_reason is not None:
        # the function cannot be brought under its contract (anchor lost, or Verus rejects a construct in it):
        # keep it in the file as external_body so that its callers are still verified against the contract,
        # and report it as OUTSIDE THE VERIFIER'S REACH (never as proved)
        sig, body = osig, obody
        try:
            if body is not None:
                only = Contract(contract.key); only.rewrites = [r for r in contract.rewrites if r in ('X3',)]
                sig, _b = apply_rewrites(qual, sig, body, only, [])
            sig = name_return(sig, contract.ret, [], qual)
        except LostAnchor:
            pass
        # the body is not looked at any more: a `mut self` binding mode (rejected by Verus even on external_body
        # functions) is dropped from the signature
        sig = re.sub(r"(&\s*(?:'\w+\s+)?)?\bmut self\b", lambda m: m.group(0) if m.group(1) else 'self', sig)   # not `&mut self`
        out.unreachable[qual] = fallback_reason
        out.log.append({'rule': 'FALLBACK', 'fn': qual, 'what': 'external_body, contract assumed for callers: ' + fallback_reason})
        body = ' unimplemented!() ' if body is not None else None
        chunks = None
    mode = 'unreachable' if fallback_reason is not None else contract.mode
    if mode in ('assume', 'bounded', 'unreachable'):
        out.emit(indent + '#[verifier::external_body]')
        if mode in ('assume', 'bounded'):
            out.log.append({'rule': 'X7', 'fn': qual, 'what': 'body kept but marked external_body: contract ASSUMED'})
    out.emit(indent + sig)
    emit_clauses(out, qual, contract.clauses, indent + '    ')
    if body is None:
        out.emit(indent + ';')
    else:
        out.emit(indent + '{')
        if mode == 'verify':
            # X11: every verified body starts with the same ghost statement making the proved library
            # lemmas available (ghost code, erased by Verus; a module-level `broadcast use` would be cyclic)
            out.emit(indent + '    ' + out.broadcast_stmt)
        buf = ''
        for ch in (chunks if chunks is not None else [body]):
            if isinstance(ch, tuple):
                if buf:
                    out.emit(buf.rstrip('\n')); buf = ''
                emit_clauses(out, qual + '#loop%d' % ch[1], contract.loops[ch[1]], indent + '        ')
                out.log.append({'rule': 'X9', 'fn': qual, 'what': 'loop %d clauses inserted' % ch[1]})
            else:
                buf += ch
        out.emit(buf.rstrip())
        out.emit(indent + '}')
    out.fn_index.append({'name': qual, 'file': relfile, 'line_lo': lo, 'line_hi': out.lineno - 1,
                         'mode': mode})

def emit_type(out, item, relfile):
    kind, name = header_kind_name(item.header)
    kept, dropped = strip_attrs_and_docs(item.text)
    if dropped:
        out.log.append({'rule': 'X1/X2', 'fn': name, 'what': 'dropped ' + '; '.join(d.split('\n')[0][:60] for d in dropped)})
    out.emit(kept.strip('\n'))
    out.emit('')

def emit_match_as_fn(out, it, relfile, want, contracts):
    # X13: `<lhs> = match <scrutinee> { arms }` inside a function that Verus cannot take (it iterates a Vec
    # by &mut) is emitted as `fn <name>(<param>: T) -> T { match <param> { arms } }` - the arms verbatim
    body = it.body
    head = want['assign']                      # e.g. 'value.arity = match value.arity'
    if body.count(head) != 1: raise LostAnchor('%s: X13 anchor %r occurs %d times' % (relfile, head, body.count(head)))
    i = body.index(head) + len(head)
    spans = lex_spans(body[i:])
    k0 = next(q for q, sp in enumerate(spans) if sp[0] == 'punct' and body[i + sp[1]] == '{')
    kc = match_close(body[i:], spans, k0)
    arms = body[i + spans[k0][1]: i + spans[kc][2]]
    key = (relfile, '-', want['as'])
    contract = contracts.get(key)
    if contract is None: raise LostAnchor('no contract for %r' % (key,))
    contract.used = True
    lo = out.lineno
    out.emit('pub fn %s(%s: %s) -> (%s: %s)' % (want['as'], want['param'], want['type'], contract.ret or 'r', want['type']))
    emit_clauses(out, want['as'], contract.clauses, '    ')
    out.emit('{')
    out.emit('    match %s %s' % (want['param'], arms))
    out.emit('}')
    out.emit('')
    out.fn_index.append({'name': want['as'], 'file': relfile, 'line_lo': lo, 'line_hi': out.lineno - 1, 'mode': 'verify'})
    out.log.append({'rule': 'X13', 'fn': want['as'], 'what': 'the match expression after %r of %s emitted as a function of the scrutinee' % (head, it.header[:60])})

def emit_plain_item(out, it, src, relfile, want, contracts):
    if want['kind'] == 'fn':
        emit_fn(out, it, relfile, '-', contracts)
        out.emit('')
        return
    cname = want.get('as') or container_name(it.header)
    header = it.header
    if want.get('header_rewrite'):
        a, b = want['header_rewrite']
        if header.count(a) != 1: raise LostAnchor('%s: header rewrite anchor lost' % relfile)
        header = header.replace(a, b)
        out.log.append({'rule': want.get('rule', 'X?'), 'fn': cname, 'what': 'header %r -> %r' % (a, b)})
    out.emit(header + ' {')
    inner = find_items(src[it.body_open + 1:it.body_close], relfile)
    seen = set()
    for sub in inner:
        k, n = header_kind_name(sub.header)
        if k != 'fn':
            if k == 'type' and want.get('keep_assoc_types'):
                out.emit('    ' + sub.header + ';')
                continue
            if k == 'type' and want.get('drop_assoc_types'):
                out.log.append({'rule': 'X6', 'fn': cname, 'what': 'associated `%s` dropped (the trait relation is dropped)' % re.sub(r'\s+', ' ', sub.header)})
                continue
            raise LostAnchor('%s: unexpected %s in %s' % (relfile, k, cname))
        seen.add(n)
        if n in want.get('drop', []):
            out.log.append({'rule': 'X8', 'fn': cname + '::' + n, 'what': 'not extracted (not under contract)'})
            continue
        # sub.src is the slice text; rebuild an Item view whose indices are local
        emit_fn(out, sub, relfile, cname, contracts, indent='    ', sig_subst=want.get('sig_subst'))
        out.emit('')
    for n in want.get('expect', []):
        if n not in seen: raise LostAnchor('%s: %s::%s disappeared' % (relfile, cname, n))
    out.emit('}')
    out.emit('')

def container_name(header):
    """impl<'a> ParseState<'a>  ->  ParseState ; impl<'a, T> ParseResultExtras<'a, T> for ParseResult<'a, T> -> ParseResultExtras_for_ParseResult"""
    h = re.sub(r'\s+', ' ', header)
    h = re.sub(r'^impl(<[^>]*>)? ', '', h)
    h = re.sub(r'<[^<>]*(<[^<>]*>[^<>]*)*>', '', h)
    h = h.replace('&', '')
    m = re.match(r'(\w+) for (\w+)', h)
    if m: return m.group(1) + '_for_' + m.group(2)
    m = re.match(r'(?:pub )?trait (\w+)', h)
    if m: return 'trait_' + m.group(1)
    return h.strip().split()[0]

def extract(repo, plan, contracts, out):
    """plan: list of dicts {file, items:[{kind:'type'|'impl'|'fn'|'trait', match:<regex on header>, drop:[fn names], only:[fn names]}]}"""
    for entry in plan:
        relfile = entry['file']
        path = os.path.join(repo, relfile)
        if not os.path.exists(path): raise LostAnchor('missing file ' + relfile)
        src = open(path).read()
        its = find_items(src, relfile)
        out.emit('// ===== from %s =====' % relfile)
        for want in entry['items']:
            grp = want.get('group')
            if grp and grp in out.failed_groups:
                continue
            rx = re.compile(want['match'])
            found = [it for it in its if rx.search(re.sub(r'\s+', ' ', it.header))]
            if len(found) != 1:
                if grp:
                    # an optional group (types + the one function that needs them): only that function is lost
                    out.failed_groups[grp] = '%s: %r matches %d items' % (relfile, want['match'], len(found))
                    continue
                raise LostAnchor('%s: %r matches %d items' % (relfile, want['match'], len(found)))
            it = found[0]
            if grp and want['kind'] == 'method_as_fn':
                try:
                    inner = find_items(src[it.body_open + 1:it.body_close], relfile)
                    ms = [sub for sub in inner if header_kind_name(sub.header) == ('fn', want['method'])]
                    if len(ms) != 1: raise LostAnchor('%s: method %s not found in %s' % (relfile, want['method'], want['match']))
                    emit_fn(out, ms[0], relfile, want['as'], contracts,
                            as_free={'prefix': want['as'], 'subst': want.get('subst', []), 'body_subst': want.get('body_subst', [])})
                    out.emit('')
                except LostAnchor as e:
                    out.failed_groups[grp] = str(e)
                continue
            if want['kind'] == 'match_as_fn':
                try:
                    emit_match_as_fn(out, it, relfile, want, contracts)
                except LostAnchor as e:
                    # only this function is lost: its clauses become 'unreachable' (no bounded stand-in exists for it)
                    key = (relfile, '-', want['as'])
                    if key in contracts: contracts[key].used = True
                    out.unreachable[want['as']] = 'lost anchor: %s' % e
                    out.log.append({'rule': 'FALLBACK', 'fn': want['as'], 'what': 'not extracted: %s' % e})
                continue
            if grp and want['kind'] in ('impl', 'fn'):
                # member of an optional group: a lost anchor inside it fails the group only (nothing half-emitted stays)
                snap = out.group_snaps.setdefault(grp, out.snapshot())   # the group's impls are adjacent in the plan: all of them go
                try:
                    emit_plain_item(out, it, src, relfile, want, contracts)
                except LostAnchor as e:
                    out.rollback(snap)
                    for k, c in contracts.items():
                        if k[0] == relfile and k[1] == GROUP_CONTAINERS.get(grp): c.used = False
                    out.failed_groups[grp] = str(e)
                continue
            if want['kind'] == 'type':
                emit_type(out, it, relfile)
            elif want['kind'] == 'fn':
                emit_fn(out, it, relfile, '-', contracts)
                out.emit('')
            elif want['kind'] == 'method_as_fn':
                inner = find_items(src[it.body_open + 1:it.body_close], relfile)
                ms = [sub for sub in inner if header_kind_name(sub.header) == ('fn', want['method'])]
                if len(ms) != 1: raise LostAnchor('%s: method %s not found in %s' % (relfile, want['method'], want['match']))
                emit_fn(out, ms[0], relfile, want['as'], contracts,
                        as_free={'prefix': want['as'], 'subst': want.get('subst', []), 'body_subst': want.get('body_subst', [])})
                out.emit('')
            elif want['kind'] == 'impl_as_fns':
                cname = want['as']
                inner = find_items(src[it.body_open + 1:it.body_close], relfile)
                for sub in inner:
                    k, n = header_kind_name(sub.header)
                    if k == 'type':
                        out.log.append({'rule': 'X6', 'fn': cname, 'what': 'associated `%s` dropped' % sub.header})
                        continue
                    if k != 'fn': raise LostAnchor('%s: unexpected %s in %s' % (relfile, k, cname))
                    emit_fn(out, sub, relfile, cname, contracts, as_free={'prefix': cname, 'subst': want.get('subst', [])})
                    out.emit('')
            elif want['kind'] in ('impl', 'trait'):
                emit_plain_item(out, it, src, relfile, want, contracts)
            else:
                raise LostAnchor('bad plan kind')
    # functions of failed optional groups: their contracts exist but the function could not be extracted
    for grp, why in out.failed_groups.items():
        for k, c in contracts.items():
            if not c.used and grp in getattr(c, 'groups', [grp]) and k[1] == GROUP_CONTAINERS.get(grp):
                c.used = True
                qual = (k[1] + '::' if k[1] != '-' else '') + k[2]
                out.unreachable[qual] = 'lost anchor: ' + why
                out.log.append({'rule': 'FALLBACK', 'fn': qual, 'what': 'not extracted: ' + why})
    unused = [k for k, c in contracts.items() if not c.used]
    if unused:
        raise LostAnchor('contracts without a function in the tree: %r' % unused)


# --------------------------------------------------------------------------------------
# generated code (layer G): the output of the tree's generator for a schema grammar, formatted with rustfmt
# --------------------------------------------------------------------------------------
X15_RE = re.compile(r'parse_(\w+)\(state(?:\.clone\(\))?, &mut \*global\)\s*\.map_inner\(\|result\| vec!\[result\]\)')

def rewrite_generated_body(fn, body, log):
    """X15: `parse_X(..).map_inner(|result| vec![result])` gets the closure's type and contract spelled out
    (Verus knows nothing about an unannotated closure); X = the rule type, taken from the call it is attached to."""
    def rep(m):
        t = m.group(1)
        log.append({'rule': 'X15', 'fn': fn, 'what': 'closure `|result| vec![result]` after parse_%s typed and given its contract' % t})
        return m.group(0).replace('|result| vec![result]', '|result: %s| -> (v: Vec<%s>) ensures v@ =~= seq![result] { vec![result] }' % (t, t))
    return X15_RE.sub(rep, body)

X18_RE = re.compile(r"parse_Whitespace\((state(?:\.clone\(\))?), &mut \*global\)\s*\.and_then\(\|ParseOk \{ state, \.\. \}\| (parse_\w+\(state, [^()|]*\))\)")

def unfold_ws_and_then(fn, body, log):
    """X18: `parse_Whitespace(S, &mut *global).and_then(|ParseOk { state, .. }| parse_X(state, ARGS))` - a closure that
    captures `&mut global` (outside Verus) - is unfolded by the definition of Result::and_then into
    `(match parse_Whitespace(S, &mut *global) { Ok(ParseOk { state, .. }) => parse_X(state, ARGS), Err(x18_e) => Err(x18_e) })`.
    The closure's parameter pattern becomes the match pattern, its body the arm, verbatim; ARGS contains no closure."""
    def rep(m):
        log.append({'rule': 'X18', 'fn': fn, 'what': 'and_then over parse_Whitespace unfolded into a match: %s' % m.group(2)[:40]})
        return '(match parse_Whitespace(%s, &mut *global) { Ok(ParseOk { state, .. }) => %s, Err(x18_e) => Err(x18_e) })' % (m.group(1), m.group(2))
    return X18_RE.sub(rep, body)

def emit_generated_module(out, src, lo, hi, modpath, contracts, relfile, indent=''):
    """emit the items of src[lo:hi] (a module body of the generated file), recursing into nested modules"""
    for it in items(src, lo, hi):
        kind, name = header_kind_name(it.header)
        if kind == 'use':
            out.log.append({'rule': 'X1', 'fn': modpath, 'what': 'dropped `%s`' % it.header[:60]})
            continue
        if kind == 'mod':
            out.emit(indent + 'pub mod %s {' % name)
            out.emit(indent + '    use super::*;')
            emit_generated_module(out, src, it.body_open + 1, it.body_close, modpath + '::' + name if modpath else name, contracts, relfile, indent + '    ')
            out.emit(indent + '}')
            continue
        if kind in ('struct', 'enum', 'type'):
            kept, dropped = strip_attrs_and_docs(it.text)
            for l in kept.strip('\n').split('\n'): out.emit(indent + l)
            continue
        if kind == 'impl':
            out.log.append({'rule': 'X8', 'fn': modpath or 'top', 'what': 'not extracted: `%s` (public entry point, calls the rule wrapper)' % it.header[:70]})
            continue
        if kind == 'fn':
            key = (relfile, modpath or '-', name)
            if ('(|| {' in it.body) and (key in contracts or (relfile, modpath or '-', name + '__iife') in contracts):
                # X17: the rule wrapper evaluates the rule in an immediately-invoked closure `(|| { BODY })()` that captures
                # `&mut global` (outside Verus). The closure's body is emitted, verbatim, as a function `<name>__iife` with the
                # wrapper's own signature, and the wrapper calls it in place of the closure. This is the same program when
                # `state` and `global` are the closure's only free variables (they are the function's only parameters) and
                # `state` is not used after the closure - both are checked here.
                p = it.body.index('(|| {')
                bo = p + len('(|| ')
                depth, q = 0, bo
                while True:
                    ch = it.body[q]
                    if ch == '{': depth += 1
                    elif ch == '}':
                        depth -= 1
                        if depth == 0: break
                    q += 1
                if not it.body[q + 1:].startswith(')();'): raise LostAnchor('X17: %s: closure is not invoked in place' % name)
                after = it.body[q + 1 + len(')();'):]
                if re.search(r'\bstate\b', after): raise LostAnchor('X17: %s: `state` is used after the closure' % name)
                if it.body.count('(|| {') != 1: raise LostAnchor('X17: %s: more than one immediately-invoked closure' % name)
                params = re.findall(r'\b(\w+)\s*:', it.header[it.header.index('>(') + 1:])
                if params[:2] != ['state', 'global'] or len(params) != 2: raise LostAnchor('X17: %s: unexpected parameters %r' % (name, params))
                inner = it.body[bo + 1:q]
                hdr = src[it.attrs_end:it.body_open]
                if len(re.findall(r'\bfn ' + name + r'\b', hdr)) != 1: raise LostAnchor('X17: %s: fn name not found' % name)
                hdr2 = re.sub(r'\bfn ' + name + r'\b', 'fn ' + name + '__iife', hdr)
                out.log.append({'rule': 'X17', 'fn': (modpath + '::' if modpath else '') + name, 'what': 'immediately-invoked closure body emitted as fn %s__iife(state, global); the wrapper calls it' % name})
                for h, b in ((hdr2, inner), (hdr, it.body[:p] + name + '__iife(state, global);' + after)):
                    isrc = h + '{' + b + '}'
                    bopen = len(h)
                    shim = Item(isrc, 0, len(isrc), 0, bopen, bopen, len(isrc) - 1)
                    emit_fn(out, shim, relfile, modpath or '-', contracts, indent=indent)
                    out.emit('')
                continue
            if '(|| {' in it.body or '(||{' in it.body:
                out.log.append({'rule': 'X8', 'fn': (modpath + '::' if modpath else '') + name, 'what': 'not extracted: rule wrapper (closure capturing &mut global: outside Verus)'})
                continue
            key = (relfile, modpath or '-', name)
            x18_body = unfold_ws_and_then((modpath + '::' if modpath else '') + name, it.body, []) if key in contracts else it.body
            within_reach = '.choice(|' not in it.body and '.and_then(|' not in x18_body and ('.or_else(|' not in it.body or bool(key in contracts and contracts[key].substs))
            if not within_reach:
                out.log.append({'rule': 'X8', 'fn': (modpath + '::' if modpath else '') + name, 'what': 'not extracted: closure capturing &mut global or the moved state (choice / whitespace / optional template)'})
                continue
            sub = Item(src, it.start, it.end, it.attrs_end, it.header_end, it.body_open, it.body_close)
            # body rewrite X15 happens through a shim item whose text carries the rewritten body
            newbody = rewrite_generated_body((modpath + '::' if modpath else '') + name, it.body, out.log)
            if key in contracts:
                newbody = unfold_ws_and_then((modpath + '::' if modpath else '') + name, newbody, out.log)
            shim_src = src[:it.body_open + 1] + newbody + src[it.body_close:]
            delta = len(newbody) - len(it.body)
            shim = Item(shim_src, it.start, it.end + delta, it.attrs_end, it.header_end, it.body_open, it.body_close + delta)
            emit_fn(out, shim, relfile, modpath or '-', contracts, indent=indent)
            out.emit('')
            continue
        raise LostAnchor('generated code: unexpected item %r in %s' % (it.header[:60], modpath))

def extract_generated(gen_text, schema, contracts, out):
    out.emit('// ===== generated by the tree\'s generator for schema %s (rustfmt-ed, otherwise unmodified) =====' % schema)
    emit_generated_module(out, gen_text, 0, len(gen_text), '', contracts, 'generated/' + schema)
    unused = [k for k, c in contracts.items() if not c.used and k[0] == 'generated/' + schema]
    if unused:
        raise LostAnchor('contracts without a function in the generated code of %s: %r' % (schema, unused))
