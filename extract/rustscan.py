"""Minimal lexical scanner for Rust source: enough to find items by brace matching.

No Rust parser is used; the scanner only needs to know where comments, string/char
literals and brackets are.  It is deliberately strict: anything it does not
understand raises ScanError, which the check turns into exit 2 (lost anchor).
"""
import re

class ScanError(Exception):
    pass

def lex_spans(src):
    """Yield (kind, start, end) for every lexical region. kind in
    {'ws','line_comment','doc_comment','block_comment','str','char','lifetime','punct','word'}"""
    i, n = 0, len(src)
    out = []
    while i < n:
        c = src[i]
        if c.isspace():
            j = i
            while j < n and src[j].isspace():
                j += 1
            out.append(('ws', i, j)); i = j
        elif src.startswith('//', i):
            j = src.find('\n', i)
            if j < 0: j = n
            kind = 'doc_comment' if (src.startswith('///', i) and not src.startswith('////', i)) or src.startswith('//!', i) else 'line_comment'
            out.append((kind, i, j)); i = j
        elif src.startswith('/*', i):
            depth, j = 1, i + 2
            while j < n and depth:
                if src.startswith('/*', j): depth += 1; j += 2
                elif src.startswith('*/', j): depth -= 1; j += 2
                else: j += 1
            if depth: raise ScanError('unterminated block comment')
            out.append(('block_comment', i, j)); i = j
        elif c == '"':
            j = i + 1
            while j < n and src[j] != '"':
                j += 2 if src[j] == '\\' else 1
            if j >= n: raise ScanError('unterminated string')
            out.append(('str', i, j + 1)); i = j + 1
        elif c == 'r' and re.match(r'r#*"', src[i:i+8]):
            m = re.match(r'r(#*)"', src[i:])
            close = '"' + m.group(1)
            j = src.find(close, i + len(m.group(0)))
            if j < 0: raise ScanError('unterminated raw string')
            out.append(('str', i, j + len(close))); i = j + len(close)
        elif c == '\'':
            m = re.match(r"'(\\x[0-9a-fA-F]{2}|\\u\{[0-9a-fA-F_]+\}|\\.|[^\\'])'", src[i:])
            if m:
                out.append(('char', i, i + m.end())); i += m.end()
            else:
                m = re.match(r"'[A-Za-z_][A-Za-z0-9_]*", src[i:])
                if not m: raise ScanError('bad quote at %d' % i)
                out.append(('lifetime', i, i + m.end())); i += m.end()
        elif c.isalpha() or c == '_' or c.isdigit():
            m = re.match(r'[A-Za-z0-9_]+', src[i:])
            out.append(('word', i, i + m.end())); i += m.end()
        else:
            out.append(('punct', i, i + 1)); i += 1
    return out

OPEN = {'{': '}', '(': ')', '[': ']'}
CLOSE = {'}', ')', ']'}

def match_close(src, spans, k):
    """spans[k] is an opening bracket punct; return index of its matching close."""
    depth = 0
    for j in range(k, len(spans)):
        kind, a, b = spans[j]
        if kind != 'punct': continue
        ch = src[a]
        if ch in OPEN: depth += 1
        elif ch in CLOSE:
            depth -= 1
            if depth == 0:
                if OPEN[src[spans[k][1]]] != ch: raise ScanError('mismatched bracket')
                return j
    raise ScanError('unbalanced bracket')

class Item:
    def __init__(self, src, start, end, attrs_end, header_end, body_open, body_close):
        self.src = src
        self.start = start          # first char of leading attrs/doc comments
        self.attrs_end = attrs_end  # first char of the item proper (after attrs/docs)
        self.header_end = header_end  # char index of '{' or ';' ending the header
        self.end = end              # one past last char
        self.body_open = body_open  # index of '{' or None
        self.body_close = body_close
    @property
    def text(self): return self.src[self.start:self.end]
    @property
    def header(self): return self.src[self.attrs_end:self.header_end].strip()
    @property
    def attrs(self): return self.src[self.start:self.attrs_end]
    @property
    def body(self):
        return None if self.body_open is None else self.src[self.body_open + 1:self.body_close]

def items(src, lo=0, hi=None):
    """Split src[lo:hi] into items (lexically)."""
    if hi is None: hi = len(src)
    seg = src[lo:hi]
    spans = lex_spans(seg)
    res = []
    k, n = 0, len(spans)
    while k < n:
        kind, a, b = spans[k]
        if kind in ('ws', 'line_comment', 'block_comment'):
            k += 1; continue
        start = a
        # leading attrs / doc comments
        while k < n:
            kind, a, b = spans[k]
            if kind in ('ws', 'doc_comment', 'line_comment', 'block_comment'):
                k += 1
            elif kind == 'punct' and seg[a] == '#':
                # attribute: '#' ['!'] '[' ... ']'
                j = k + 1
                while spans[j][0] == 'ws' or (spans[j][0] == 'punct' and seg[spans[j][1]] == '!'): j += 1
                if not (spans[j][0] == 'punct' and seg[spans[j][1]] == '['): raise ScanError('bad attribute')
                k = match_close(seg, spans, j) + 1
            else:
                break
        if k >= n:
            break
        attrs_end = spans[k][1]
        # `use` items contain braces that are not a body: they end at the ';'
        words = [seg[a_:b_] for (kd_, a_, b_) in spans[k:k + 8] if kd_ == 'word']
        is_use = bool(words) and (words[0] == 'use' or (words[0] == 'pub' and 'use' in words[1:3]))
        # header: up to first '{' or ';' at bracket depth 0 (parens/brackets only)
        depth = 0
        j = k
        body_open = body_close = None
        while j < n:
            kind, a, b = spans[j]
            if kind == 'punct':
                ch = seg[a]
                if ch in '([': depth += 1
                elif ch in ')]': depth -= 1
                elif ch == '{' and depth == 0 and is_use:
                    j = match_close(seg, spans, j)
                elif ch == '{' and depth == 0:
                    body_open = a
                    jc = match_close(seg, spans, j)
                    body_close = spans[jc][1]
                    header_end = a
                    end = body_close + 1
                    j = jc + 1
                    break
                elif ch == ';' and depth == 0:
                    header_end = a
                    end = a + 1
                    j += 1
                    break
            j += 1
        else:
            raise ScanError('item without end: %r' % seg[attrs_end:attrs_end + 60])
        res.append(Item(src, lo + start, lo + end, lo + attrs_end, lo + header_end,
                        None if body_open is None else lo + body_open,
                        None if body_close is None else lo + body_close))
        k = j
    return res

def strip_attrs_and_docs(text):
    """Remove doc comments and outer attributes from an item's leading region (rule X1/X2).
    Returns (kept_text, dropped_list)."""
    spans = lex_spans(text)
    dropped = []
    out = []
    k = 0
    n = len(spans)
    while k < n:
        kind, a, b = spans[k]
        if kind == 'doc_comment':
            dropped.append(text[a:b]); k += 1
        elif kind == 'punct' and text[a] == '#':
            j = k + 1
            while spans[j][0] == 'ws': j += 1
            jc = match_close(text, spans, j)
            dropped.append(text[a:spans[jc][2]]); k = jc + 1
        else:
            out.append(text[a:b]); k += 1
    return ''.join(out), dropped
