"""What is extracted from /repo into the Verus file (layer R). Order matters only for readability."""

RUNTIME_PLAN = [
    {'file': 'runtime/src/error.rs', 'items': [
        {'kind': 'type', 'match': r'^pub enum ParseErrorSpecifics$'},
        {'kind': 'type', 'match': r'^pub struct ParseError$'},
    ]},
    {'file': 'runtime/src/peg_parser.rs', 'items': [
        {'kind': 'type', 'match': r'^pub struct ParseSettings$'},
    ]},
    {'file': 'runtime/src/state.rs', 'items': [
        {'kind': 'type', 'match': r"^pub struct ParseState<'a>$"},
        {'kind': 'impl', 'match': r"^impl<'a> ParseState<'a>$", 'expect': ['first_n_chars', 'new', 's', 'is_empty', 'advance', 'advance_safe', 'slice_until', 'range_until',
                    'cache_key', 'report_error', 'record_error', 'report_farthest_error', 'is_further_than']},
    ]},
    {'file': 'runtime/src/parse_result.rs', 'items': [
        {'kind': 'type', 'match': r"^pub struct ParseOk<'a, T>$"},
        {'kind': 'type', 'match': r"^pub type ParseResult<'a, T> ="},
        {'kind': 'impl', 'match': r"^impl<'a, T> ParseOk<'a, T>$", 'expect': ['map', 'map_with_state']},
        {'kind': 'trait', 'match': r"^pub trait ParseResultExtras<'a, T>$", 'expect': ['discard_result', 'map_inner']},
        {'kind': 'impl', 'match': r"^impl<'a, T> ParseResultExtras<'a, T> for ParseResult<'a, T>$",
         'expect': ['discard_result', 'map_inner']},
    ]},
    {'file': 'runtime/src/choice_helper.rs', 'items': [
        {'kind': 'type', 'match': r"^pub struct ChoiceHelper<'a, T>$"},
        {'kind': 'impl', 'match': r"^impl<'a, T> ChoiceHelper<'a, T>$", 'expect': ['new', 'choice', 'end']},
    ]},
    {'file': 'runtime/src/builtin_parsers.rs', 'items': [
        {'kind': 'fn', 'match': r'^pub fn parse_char<'},
        {'kind': 'fn', 'match': r'^pub fn parse_Whitespace<'},
        {'kind': 'fn', 'match': r'^pub fn parse_string_literal<'},
        {'kind': 'fn', 'match': r'^pub fn parse_character_literal\('},
        {'kind': 'fn', 'match': r'^pub fn parse_character_range\('},
        {'kind': 'fn', 'match': r'^pub fn parse_string_literal_insensitive<'},
        {'kind': 'fn', 'match': r'^pub fn parse_character_literal_insensitive\('},
        {'kind': 'fn', 'match': r'^pub fn parse_end_of_input\('},
    ]},
]

RUNTIME_PLAN += [
    {'file': 'runtime/src/trace.rs', 'items': [
        {'kind': 'type', 'match': r'^pub struct IndentedTracer$'},
        # the trait relation is dropped (rule X6): Verus accepts no `requires` on trait impls, and the balance
        # obligation on callers is exactly a `requires`
        {'kind': 'impl', 'match': r'^impl ParseTracer for IndentedTracer$', 'as': 'IndentedTracer',
         'header_rewrite': ('impl ParseTracer for IndentedTracer', 'impl IndentedTracer'), 'rule': 'X6',
         'expect': ['print_informative', 'print_trace_start', 'print_trace_result', 'new']},
    ]},
]

# the line splitter behind PrettyParseError (C11): optional group, fails locally
RUNTIME_PLAN += [
    {'file': 'runtime/src/error.rs', 'items': [
        {'kind': 'type', 'match': r"^struct IndexedStringLine<'a>$", 'group': 'pretty'},
        {'kind': 'type', 'match': r"^struct IndexedStringLineIterator<'a>$", 'group': 'pretty'},
        {'kind': 'impl', 'match': r"^impl<'a> IndexedStringLineIterator<'a>$", 'group': 'pretty', 'expect': ['new']},
        # X6: `impl Iterator for ..` emitted as an inherent impl (Verus takes no user Iterator impl with a contract on `next`)
        {'kind': 'impl', 'match': r"^impl<'a> Iterator for IndexedStringLineIterator<'a>$", 'group': 'pretty', 'as': 'IndexedStringLineIterator',
         'header_rewrite': ("impl<'a> Iterator for IndexedStringLineIterator<'a>", "impl<'a> IndexedStringLineIterator<'a>"), 'rule': 'X6',
         'drop_assoc_types': True, 'sig_subst': [('Option<Self::Item>', "Option<IndexedStringLine<'a>>")], 'expect': ['next']},
    ]},
]

CODEGEN_PLAN = [
    {'file': 'codegen/src/common.rs', 'items': [
        {'kind': 'type', 'match': r'^pub enum Arity$'},
    ]},
    {'file': 'codegen/src/choice.rs', 'items': [
        {'kind': 'fn', 'match': r'^fn combine_arities_for_choice\('},
    ]},
    {'file': 'codegen/src/optional.rs', 'items': [
        {'kind': 'match_as_fn', 'match': r'^fn set_arity_to_optional\(', 'assign': 'value.arity = match value.arity',
         'as': 'set_arity_to_optional__element', 'param': 'value_arity', 'type': 'Arity'},
    ]},
    {'file': 'codegen/src/grammar/generated.rs', 'items': [
        {'kind': 'type', 'match': r'^pub enum DirectiveExpression$', 'group': 'flags'},
        {'kind': 'type', 'match': r'^pub struct StringDirective$', 'group': 'flags'},
        {'kind': 'type', 'match': r'^pub struct NoSkipWsDirective$', 'group': 'flags'},
        {'kind': 'type', 'match': r'^pub struct ExportDirective$', 'group': 'flags'},
        {'kind': 'type', 'match': r'^pub struct PositionDirective$', 'group': 'flags'},
        {'kind': 'type', 'match': r'^pub struct MemoizeDirective$', 'group': 'flags'},
        {'kind': 'type', 'match': r'^pub struct LeftrecDirective$', 'group': 'flags'},
        {'kind': 'type', 'match': r'^pub struct CheckDirective$', 'group': 'flags'},
        {'kind': 'type', 'match': r'^pub type NamespacedRustName = Vec<RustNamePart>$', 'group': 'flags'},
        {'kind': 'type', 'match': r'^pub type RustNamePart = String$', 'group': 'flags'},
        {'kind': 'type', 'match': r'^pub type HexChar = char$'},
        {'kind': 'type', 'match': r'^pub struct HexaEscape$'},
        {'kind': 'type', 'match': r'^pub struct Utf8Escape$'},
        {'kind': 'type', 'match': r'^pub enum SimpleEscape$'},
        {'kind': 'type', 'match': r'^pub struct SimpleEscapeNewline$'},
        {'kind': 'type', 'match': r'^pub struct SimpleEscapeCarriageReturn$'},
        {'kind': 'type', 'match': r'^pub struct SimpleEscapeTab$'},
        {'kind': 'type', 'match': r'^pub struct SimpleEscapeBackslash$'},
        {'kind': 'type', 'match': r'^pub struct SimpleEscapeQuote$'},
        {'kind': 'type', 'match': r'^pub struct SimpleEscapeDQuote$'},
    ]},
    {'file': 'codegen/src/rule.rs', 'items': [
        {'kind': 'type', 'match': r'^pub struct RuleFlags$', 'group': 'flags'},
        # X14: Rule::flags reads only self.directives; it is emitted as a function of that field (the Rule struct would
        # drag the whole front-end AST into the file)
        {'kind': 'method_as_fn', 'match': r'^impl Rule$', 'method': 'flags', 'as': 'Rule', 'group': 'flags',
         'subst': [('(&self)', '(directives: &Vec<DirectiveExpression>)')], 'body_subst': [('&self.directives', 'directives')]},
    ]},
    {'file': 'codegen/src/string.rs', 'items': [
        {'kind': 'impl_as_fns', 'match': r'^impl From<&HexaEscape> for char$', 'as': 'HexaEscape_to_char',
         'subst': [('-> Self', '-> char')]},
        {'kind': 'impl_as_fns', 'match': r'^impl From<&SimpleEscape> for char$', 'as': 'SimpleEscape_to_char',
         'subst': [('-> Self', '-> char')]},
        {'kind': 'impl_as_fns', 'match': r'^impl TryFrom<&Utf8Escape> for char$', 'as': 'Utf8Escape_to_char',
         'subst': [('Result<Self, Self::Error>', 'Result<char, AnyhowError>')]},
    ]},
]

# extra runtime items the generated code mentions (only passed through by the closure-free functions)
G_RUNTIME_EXTRA = [
    {'file': 'runtime/src/trace.rs', 'items': [
        {'kind': 'type', 'match': r'^pub trait ParseTracer: Clone \+ Copy$'},
    ]},
    {'file': 'runtime/src/global.rs', 'items': [
        {'kind': 'type', 'match': r'^pub struct ParseGlobal<TT: ParseTracer, TC, TUD>$'},
    ]},
]
