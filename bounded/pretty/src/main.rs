//! Layer B (DESIGN §6 C11): exhaustive replay of an executable contract of
//! PrettyParseError::from_parse_error on the REAL function, for every text over a small alphabet up to a length
//! bound, every character-boundary position 0..=len, with and without a source file name.
//!   pretty enumerate <maxlen>
//!   pretty replay <hex of text bytes> <position> <file|->
use peginator::{ParseError, ParseErrorSpecifics, PrettyParseError};

const ALPHABET: &[&str] = &["a", "é", "€", "\n", " ", "\r", "\t"];

/// the contract, straight from the property statement
fn expected(text: &str, pos: usize) -> (usize, usize, String) {
    let before = &text[..pos];
    let line = 1 + before.matches('\n').count();
    let line_start = before.rfind('\n').map(|p| p + 1).unwrap_or(0);
    let column = 1 + text[line_start..pos].chars().count();
    let line_text = text[line_start..].split('\n').next().unwrap_or("").to_string();
    (line, column, line_text)
}

fn check(text: &str, pos: usize, file: Option<&str>) -> Result<(), String> {
    let err = ParseError { position: pos, specifics: ParseErrorSpecifics::ExpectedEoi };
    let (t, f) = (text.to_string(), file.map(|s| s.to_string()));
    let out = std::panic::catch_unwind(move || PrettyParseError::from_parse_error(&err, &t, f.as_deref()).to_string())
        .map_err(|_| "from_parse_error panicked".to_string())?;
    let (line, column, line_text) = expected(text, pos);
    let lines: Vec<&str> = out.split('\n').collect();
    // format: message / "--> " position / " |  " / " |  " line / " |  " caret / ""
    if lines.len() < 5 { return Err(format!("unexpected output shape: {out:?}")); }
    let want_pos = match file { Some(f) => format!("--> {f}:{line}:{column}"), None => format!("--> Line {line} character {column}") };
    if lines[1] != want_pos { return Err(format!("position line is {:?}, contract says {:?}", lines[1], want_pos)); }
    let printed = lines[3].strip_prefix(" |  ").ok_or("line not printed with the gutter")?;
    if printed != line_text.trim_end() { return Err(format!("printed line is {:?}, the line containing the position is {:?}", printed, line_text)); }
    let caret = lines[4].strip_prefix(" |  ").ok_or("caret line without the gutter")?;
    let want_caret = format!("{}^", " ".repeat(column - 1));
    if caret != want_caret { return Err(format!("caret line is {:?}, contract says {:?} (column {column})", caret, want_caret)); }
    Ok(())
}

/// kind 0: k times 'a';  kind 1: "x\n" + k times 'a' + "\ny";  kind 2: k times 'é'
fn long_text(kind: usize, k: usize) -> String {
    match kind { 0 => "a".repeat(k), 1 => format!("x\n{}\ny", "a".repeat(k)), _ => "é".repeat(k) }
}

fn hex(s: &str) -> String { s.bytes().map(|b| format!("{b:02x}")).collect() }
fn unhex(s: &str) -> String { String::from_utf8((0..s.len() / 2).map(|i| u8::from_str_radix(&s[2 * i..2 * i + 2], 16).unwrap()).collect()).unwrap() }

fn main() {
    std::panic::set_hook(Box::new(|_| {}));
    let args: Vec<String> = std::env::args().collect();
    match args.get(1).map(|s| s.as_str()) {
        Some("enumerate") => {
            let maxlen: usize = args[2].parse().unwrap();
            let mut texts = vec![String::new()];
            let mut frontier = vec![String::new()];
            for _ in 0..maxlen {
                let mut next = vec![];
                for p in &frontier { for a in ALPHABET { next.push(format!("{p}{a}")); } }
                texts.extend(next.iter().cloned());
                frontier = next;
            }
            let (mut cases, mut fails, mut multiline) = (0u64, 0u64, 0u64);
            for text in &texts {
                for pos in 0..=text.len() {
                    if !text.is_char_boundary(pos) { continue; }
                    for file in [None, Some("g.ebnf")] {
                        cases += 1;
                        if text.contains('\n') { multiline += 1; }
                        if let Err(why) = check(text, pos, file) {
                            fails += 1;
                            println!("B-FAIL text={:?} hex={} pos={} file={} why={:?}", text, hex(text), pos, file.unwrap_or("-"), why);
                        }
                    }
                }
            }
            println!("B-DONE maxlen={maxlen} texts={} cases={cases} multiline_cases={multiline} failures={fails}", texts.len());
            std::process::exit(if fails > 0 { 1 } else { 0 });
        }
        Some("long") => {
            // long lines (the property names them): a fixed family, not exhaustive
            let (mut cases, mut fails) = (0u64, 0u64);
            for kind in 0..3usize {
                for k in [255usize, 256, 257, 65534, 65535, 65536, 65537, 70000] {
                    let text = long_text(kind, k);
                    for pos in [0usize, 1, 255, 256, 65533, 65534, 65535, 65536, 65537, 69999, 70000, text.len()] {
                        if pos > text.len() || !text.is_char_boundary(pos) { continue; }
                        for file in [None, Some("g.ebnf")] {
                            cases += 1;
                            if let Err(why) = check(&text, pos, file) {
                                fails += 1;
                                if fails <= 8 { println!("B-FAIL-LONG kind={kind} k={k} pos={pos} file={} why={:?}", file.unwrap_or("-"), why.chars().take(160).collect::<String>()); }
                            }
                        }
                    }
                }
            }
            println!("B-LONG-DONE cases={cases} failures={fails}");
            std::process::exit(if fails > 0 { 1 } else { 0 });
        }
        Some("replay-long") => {
            let (kind, k, pos): (usize, usize, usize) = (args[2].parse().unwrap(), args[3].parse().unwrap(), args[4].parse().unwrap());
            let file = if args[5] == "-" { None } else { Some(args[5].as_str()) };
            match check(&long_text(kind, k), pos, file) {
                Ok(()) => println!("B-REPLAY-PASS long kind={kind} k={k} pos={pos}"),
                Err(why) => { println!("B-REPLAY-FAIL long kind={kind} k={k} pos={pos} why={:?}", why.chars().take(200).collect::<String>()); std::process::exit(1); }
            }
        }
        Some("replay") => {
            let text = unhex(&args[2]);
            let pos: usize = args[3].parse().unwrap();
            let file = if args[4] == "-" { None } else { Some(args[4].as_str()) };
            match check(&text, pos, file) {
                Ok(()) => println!("B-REPLAY-PASS text={text:?} pos={pos}"),
                Err(why) => { println!("B-REPLAY-FAIL text={text:?} pos={pos} why={why:?}"); std::process::exit(1); }
            }
        }
        _ => { eprintln!("usage: pretty enumerate <maxlen> | replay <hex> <pos> <file|->"); std::process::exit(2); }
    }
}
