//! Complete native check of the escape decoders (stand-in / counterexample finder for the Verus obligations of
//! codegen/src/string.rs): every \xXX pair, every simple escape, every \u escape of 1..6 hex digits
//! (22 + 22^2 + .. + 22^6 = 118 778 946 digit strings over 0-9a-fA-F) against u32::from_str_radix + char::from_u32.
use peginator_codegen::grammar::*;

const HEX: &[u8] = b"0123456789abcdefABCDEF";

fn main() {
    let full = std::env::args().nth(1).as_deref() == Some("full");
    let mut cases = 0u64;
    for &a in HEX { for &b in HEX {
        let got: char = (&HexaEscape { c1: a as char, c2: b as char }).into();
        let want = u32::from_str_radix(&format!("{}{}", a as char, b as char), 16).unwrap();
        cases += 1;
        if got as u32 != want { println!("DECODERS-FAIL \\x{}{} -> U+{:04X}, want U+{:04X}", a as char, b as char, got as u32, want); std::process::exit(1); }
    } }
    let simple: [(SimpleEscape, char); 6] = [
        (SimpleEscape::SimpleEscapeNewline(SimpleEscapeNewline), '\n'), (SimpleEscape::SimpleEscapeCarriageReturn(SimpleEscapeCarriageReturn), '\r'),
        (SimpleEscape::SimpleEscapeTab(SimpleEscapeTab), '\t'), (SimpleEscape::SimpleEscapeBackslash(SimpleEscapeBackslash), '\\'),
        (SimpleEscape::SimpleEscapeQuote(SimpleEscapeQuote), '\''), (SimpleEscape::SimpleEscapeDQuote(SimpleEscapeDQuote), '"')];
    for (e, want) in simple.iter() {
        let got: char = e.into();
        cases += 1;
        if got != *want { println!("DECODERS-FAIL simple escape {:?} -> {:?}, want {:?}", e, got, want); std::process::exit(1); }
    }
    // \u escapes: digits d[0..len]
    let mut d = [0usize; 6];
    for len in 1..=6usize {
        let total = 22u64.pow(len as u32);
        for code in 0..total {
            let mut c = code;
            let mut v: u32 = 0;
            for i in 0..len { d[len - 1 - i] = (c % 22) as usize; c /= 22; }
            if !full {
                // quick: 1..4 digits complete; 5 digits with first digit in {0,1,d,f}; 6 digits with first in {0,1}, second in {0,1,f}
                if len == 5 && ![0usize, 1, 13, 15].contains(&d[0]) { continue; }
                if len == 6 && (![0usize, 1].contains(&d[0]) || ![0usize, 1, 15].contains(&d[1])) { continue; }
            }
            for i in 0..len { let h = HEX[d[i]]; v = v * 16 + (h as char).to_digit(16).unwrap(); }
            let ch = |i: usize| if i < len { Some(HEX[d[i]] as char) } else { None };
            let e = Utf8Escape { c1: HEX[d[0]] as char, c2: ch(1), c3: ch(2), c4: ch(3), c5: ch(4), c6: ch(5) };
            let got = char::try_from(&e);
            cases += 1;
            match (got, char::from_u32(v)) {
                (Ok(g), Some(w)) if g == w => {}
                (Err(_), None) => {}
                (g, w) => {
                    let txt: String = (0..len).map(|i| HEX[d[i]] as char).collect();
                    println!("DECODERS-FAIL \\u{{{}}} -> {:?}, want {:?}", txt, g.ok(), w); std::process::exit(1);
                }
            }
        }
    }
    println!("DECODERS-PASS cases={cases} mode={}", if full { "full" } else { "quick" });
}
