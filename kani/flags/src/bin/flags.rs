fn main() {
    let mut count = 0u32;
    for len in 0..=4usize {
        let total = 7u32.pow(len as u32);
        for code in 0..total {
            let mut ks = vec![]; let mut c = code;
            for _ in 0..len { ks.push((c % 7) as u8); c /= 7; }
            count += 1;
            if let Err(why) = flags_cx::check(&ks) { println!("FLAGS-FAIL kinds={ks:?} why={why:?}"); std::process::exit(1); }
        }
    }
    println!("FLAGS-PASS vectors={count}");
}
