//! Contract of `Rule::flags()` (C12: "directives in any order, several @checks"): each flag is set iff a directive
//! of that kind is present; @check directives set no flag. Run natively over EVERY directive vector of length <= 4
//! (7^0+..+7^4 = 2801 vectors, exhaustive) and under Kani with a symbolic vector of length <= 3.
use peginator_codegen::grammar::*;

pub fn directive(k: u8) -> DirectiveExpression {
    match k % 7 {
        0 => DirectiveExpression::CheckDirective(CheckDirective { function: vec!["f".to_string()] }),
        1 => DirectiveExpression::ExportDirective(ExportDirective),
        2 => DirectiveExpression::LeftrecDirective(LeftrecDirective),
        3 => DirectiveExpression::MemoizeDirective(MemoizeDirective),
        4 => DirectiveExpression::NoSkipWsDirective(NoSkipWsDirective),
        5 => DirectiveExpression::PositionDirective(PositionDirective),
        _ => DirectiveExpression::StringDirective(StringDirective),
    }
}

pub fn check(kinds: &[u8]) -> Result<(), &'static str> {
    let rule = Rule { directives: kinds.iter().map(|k| directive(*k)).collect(), name: String::new(), definition: Choice { choices: vec![] } };
    let f = rule.flags();
    let has = |k: u8| kinds.iter().any(|x| x % 7 == k);
    if f.export != has(1) { return Err("export flag != presence of @export"); }
    if f.left_recursive != has(2) { return Err("left_recursive flag != presence of @leftrec"); }
    if f.memoize != has(3) { return Err("memoize flag != presence of @memoize"); }
    if f.no_skip_ws != has(4) { return Err("no_skip_ws flag != presence of @no_skip_ws"); }
    if f.position != has(5) { return Err("position flag != presence of @position"); }
    if f.string != has(6) { return Err("string flag != presence of @string"); }
    Ok(())
}

#[cfg(kani)]
mod proofs {
    use super::*;
    #[kani::proof]
    #[kani::unwind(5)]
    fn flags_any_order() {
        let n: usize = kani::any();
        kani::assume(n <= 3);
        let ks: [u8; 3] = [kani::any(), kani::any(), kani::any()];
        kani::assume(ks[0] < 7 && ks[1] < 7 && ks[2] < 7);
        assert!(check(&ks[..n]).is_ok(), "Rule::flags contract violated");
    }
}
