//! Twin harnesses for layer R (DESIGN §3.6): an executable transcription of each runtime contract, run on the
//! REAL functions of /repo/runtime through the public API. Used only to FIND and REPLAY counterexamples for
//! failed Verus obligations, and as the bounded stand-in for a function Verus cannot take. Never used to
//! declare a proof.
use peginator::{
    parse_Whitespace, parse_char, parse_character_literal, parse_character_literal_insensitive,
    parse_character_range, parse_end_of_input, parse_string_literal, parse_string_literal_insensitive,
    CacheEntries, ChoiceHelper, IndentedTracer, ParseError, ParseTracer, ParseErrorSpecifics, ParseOk, ParseResult, ParseSettings, ParseState,
};

/// source of nondeterminism: kani::any() under Kani, recorded bytes natively
pub trait Src {
    fn byte(&mut self) -> u8;
    fn size(&mut self) -> usize;
    fn ch(&mut self) -> char;
    fn flag(&mut self) -> bool;
    fn assume(&mut self, b: bool);
}

/// recorded values (Kani concrete playback: one little-endian byte vector per kani::any())
pub struct Recorded { pub vals: Vec<Vec<u8>>, pub pos: usize, pub valid: bool }
impl Recorded {
    pub fn new(vals: Vec<Vec<u8>>) -> Self { Recorded { vals, pos: 0, valid: true } }
    fn next(&mut self) -> Vec<u8> { let v = self.vals.get(self.pos).cloned().unwrap_or_default(); self.pos += 1; v }
    fn num(&mut self) -> u64 { let v = self.next(); let mut x = 0u64; for (i, b) in v.iter().enumerate().take(8) { x |= (*b as u64) << (8 * i); } x }
}
impl Src for Recorded {
    fn byte(&mut self) -> u8 { self.num() as u8 }
    fn size(&mut self) -> usize { self.num() as usize }
    fn ch(&mut self) -> char { match char::from_u32(self.num() as u32) { Some(c) => c, None => { self.valid = false; 'a' } } }
    fn flag(&mut self) -> bool { self.num() != 0 }
    fn assume(&mut self, b: bool) { if !b { self.valid = false; } }
}

pub const MAXLEN: usize = 4;

/// One concrete test case: everything a contract quantifies over.
#[derive(Debug, Clone)]
pub struct Case {
    pub buf: [u8; MAXLEN],
    pub len: usize,
    pub start: usize,            // offset of the state inside the input (a char boundary)
    pub far: Option<usize>,      // position of a previously recorded error
    pub c: char,
    pub c2: char,
    pub lit: [u8; 3],
    pub lit_len: usize,
    pub n: usize,
    pub k1: usize,
    pub k2: usize,
    pub k3: usize,
}

impl Case {
    pub fn from_src(s: &mut impl Src) -> Case {
        let buf = [s.byte(), s.byte(), s.byte(), s.byte()];
        let len = s.size(); s.assume(len <= MAXLEN);
        let start = s.size(); s.assume(start <= len);
        let has_far = s.flag();
        let farp = s.size(); s.assume(farp <= len);
        let c = s.ch();
        let c2 = s.ch();
        let lit = [s.byte(), s.byte(), s.byte()];
        let lit_len = s.size(); s.assume(lit_len <= 3);
        let n = s.size(); s.assume(n <= MAXLEN + 1);
        let (k1, k2, k3) = (s.size(), s.size(), s.size());
        Case { buf, len, start, far: if has_far { Some(farp) } else { None }, c, c2, lit, lit_len, n, k1, k2, k3 }
    }
    pub fn input(&self) -> Option<&str> { core::str::from_utf8(&self.buf[..self.len]).ok() }
    pub fn literal(&self) -> Option<&str> { core::str::from_utf8(&self.lit[..self.lit_len]).ok() }
}

fn leak(s: &str) -> &'static str { Box::leak(s.to_string().into_boxed_str()) }

/// build an arbitrary well-formed state over `input`: new -> record_error -> advance
pub fn mk_state<'a>(input: &'a str, start: usize, far: Option<usize>) -> Option<ParseState<'a>> {
    if !input.is_char_boundary(start) { return None; }
    if let Some(p) = far { if !input.is_char_boundary(p) { return None; } }
    let mut st = ParseState::new(input, &ParseSettings::default());
    if let Some(p) = far {
        st = st.record_error(ParseError { position: p, specifics: ParseErrorSpecifics::ExpectedEoi });
    }
    // SAFETY: start is a char boundary of input (checked above)
    Some(unsafe { st.advance(start) })
}

pub fn spec_eq(a: &ParseErrorSpecifics, b: &ParseErrorSpecifics) -> bool {
    use ParseErrorSpecifics::*;
    match (a, b) {
        (ExpectedAnyCharacter, ExpectedAnyCharacter) | (ExpectedEoi, ExpectedEoi) | (NegativeLookaheadFailed, NegativeLookaheadFailed)
        | (LeftRecursionSentinel, LeftRecursionSentinel) | (Other, Other) => true,
        (ExpectedCharacter { c: x }, ExpectedCharacter { c: y }) => x == y,
        (ExpectedCharacterRange { from: a1, to: a2 }, ExpectedCharacterRange { from: b1, to: b2 }) => a1 == b1 && a2 == b2,
        (ExpectedString { s: x }, ExpectedString { s: y }) => x == y,
        (ExpectedCharacterClass { name: x }, ExpectedCharacterClass { name: y }) => x == y,
        (CheckFunctionFailed { function_name: x }, CheckFunctionFailed { function_name: y }) => x == y,
        (ExternRuleFailed { error_string: x }, ExternRuleFailed { error_string: y }) => x == y,
        _ => false,
    }
}

/// spec `furthest(far, own)`
fn furthest(far: Option<usize>, idx: usize, sp: ParseErrorSpecifics) -> (usize, ParseErrorSpecifics) {
    match far {
        Some(p) if p > idx => (p, ParseErrorSpecifics::ExpectedEoi),
        _ => (idx, sp),
    }
}

pub type R = Result<(), &'static str>;

/// `matched(state, r, v, n)`: Ok, consumed exactly n bytes on a boundary, recorded error untouched
fn expect_matched<T>(input: &str, start: usize, far: Option<usize>, r: &ParseResult<T>, n: usize) -> R {
    match r {
        Err(_) => Err("expected a match, got Err"),
        Ok(ok) => {
            if ok.state.cache_key() != start + n { return Err("consumed a different number of bytes than the contract says"); }
            if !input.is_char_boundary(start + n) { return Err("cursor left off a char boundary"); }
            if ok.state.s().as_ptr() != input[start + n..].as_ptr() || ok.state.s().len() != input.len() - start - n { return Err("remaining input is not the suffix at the new offset"); }
            let e = ok.state.clone().report_farthest_error();
            match far {
                Some(p) => if e.position != p || !spec_eq(&e.specifics, &ParseErrorSpecifics::ExpectedEoi) { return Err("recorded error changed by a successful match"); },
                None => if e.position != start + n || !spec_eq(&e.specifics, &ParseErrorSpecifics::Other) { return Err("an error appeared on a successful match"); },
            }
            Ok(())
        }
    }
}

/// C04's sentence on any result: whatever a matcher returns as Ok stands on a character boundary inside the input and
/// holds exactly the suffix that starts there (checked first, so that an unsafe result is reported as such and not as a
/// wrong byte count)
fn safe_result<T>(input: &str, r: &ParseResult<T>) -> R {
    if let Ok(ok) = r {
        let at = ok.state.cache_key();
        if at > input.len() || !input.is_char_boundary(at) { return Err("cursor left off a char boundary"); }
        if ok.state.s().as_ptr() != input[at..].as_ptr() || ok.state.s().len() != input.len() - at { return Err("remaining input is not the suffix at the new offset"); }
    }
    Ok(())
}

/// `failed(state, r, sp)`
fn expect_failed<T>(start: usize, far: Option<usize>, r: &ParseResult<T>, sp: ParseErrorSpecifics) -> R {
    match r {
        Ok(_) => Err("expected a failure, got Ok"),
        Err(e) => {
            let (p, s) = furthest(far, start, sp);
            if e.position != p { return Err("error position is not furthest(recorded, own)"); }
            if !spec_eq(&e.specifics, &s) { return Err("error specifics are not those of furthest(recorded, own)"); }
            Ok(())
        }
    }
}

macro_rules! setup {
    ($case:ident, $input:ident, $st:ident) => {
        let $input = match $case.input() { Some(i) => i, None => return Ok(()) };
        let $st = match mk_state($input, $case.start, $case.far) { Some(s) => s, None => return Ok(()) };
    };
}

pub fn check_parse_char(case: &Case) -> R {
    setup!(case, input, st);
    let r = parse_char(st, ());
    safe_result(input, &r)?;
    match input[case.start..].chars().next() {
        None => expect_failed(case.start, case.far, &r, ParseErrorSpecifics::ExpectedAnyCharacter),
        Some(c) => {
            expect_matched(input, case.start, case.far, &r, c.len_utf8())?;
            if r.unwrap().result != c { return Err("wrong character returned"); }
            Ok(())
        }
    }
}

pub fn ws_prefix_len(b: &[u8]) -> usize {
    let mut n = 0;
    while n < b.len() && (b[n] == 0x20 || b[n] == 0x09 || b[n] == 0x0A || b[n] == 0x0C || b[n] == 0x0D) { n += 1; }
    n
}

pub fn check_parse_whitespace(case: &Case) -> R {
    setup!(case, input, st);
    let r = parse_Whitespace(st, ());
    safe_result(input, &r)?;
    expect_matched(input, case.start, case.far, &r, ws_prefix_len(input[case.start..].as_bytes()))
}

pub fn check_parse_string_literal(case: &Case) -> R {
    setup!(case, input, st);
    let lit = match case.literal() { Some(l) => leak(l), None => return Ok(()) };
    let r = parse_string_literal(st, lit);
    safe_result(input, &r)?;
    if input[case.start..].as_bytes().starts_with(lit.as_bytes()) {
        expect_matched(input, case.start, case.far, &r, lit.len())?;
        if r.unwrap().result != lit { return Err("wrong literal returned"); }
        Ok(())
    } else {
        expect_failed(case.start, case.far, &r, ParseErrorSpecifics::ExpectedString { s: lit })
    }
}

pub fn check_parse_character_literal(case: &Case) -> R {
    setup!(case, input, st);
    let c = case.c;
    let r = parse_character_literal(st, c);
    safe_result(input, &r)?;
    if input[case.start..].chars().next() == Some(c) {
        expect_matched(input, case.start, case.far, &r, c.len_utf8())?;
        if r.unwrap().result != c { return Err("wrong character returned"); }
        Ok(())
    } else {
        expect_failed(case.start, case.far, &r, ParseErrorSpecifics::ExpectedCharacter { c })
    }
}

pub fn check_parse_character_range(case: &Case) -> R {
    setup!(case, input, st);
    let (from, to) = (case.c, case.c2);
    let r = parse_character_range(st, from, to);
    safe_result(input, &r)?;
    match input[case.start..].chars().next() {
        Some(x) if from <= x && x <= to => {
            expect_matched(input, case.start, case.far, &r, x.len_utf8())?;
            if r.unwrap().result != x { return Err("wrong character returned"); }
            Ok(())
        }
        _ => expect_failed(case.start, case.far, &r, ParseErrorSpecifics::ExpectedCharacterRange { from, to }),
    }
}

fn lower(b: u8) -> u8 { if (0x41..=0x5A).contains(&b) { b + 32 } else { b } }

pub fn check_parse_string_literal_insensitive(case: &Case) -> R {
    setup!(case, input, st);
    let lit = match case.literal() { Some(l) => leak(l), None => return Ok(()) };
    if !lit.is_ascii() { return Ok(()); }            // requires: the generator only passes ASCII literals
    let r = parse_string_literal_insensitive(st, lit);
    safe_result(input, &r)?;
    let rest = input[case.start..].as_bytes();
    let m = lit.len() <= rest.len() && (0..lit.len()).all(|i| lower(rest[i]) == lit.as_bytes()[i]);
    if m {
        expect_matched(input, case.start, case.far, &r, lit.len())?;
        if r.unwrap().result != lit { return Err("wrong literal returned"); }
        Ok(())
    } else {
        expect_failed(case.start, case.far, &r, ParseErrorSpecifics::ExpectedString { s: lit })
    }
}

pub fn check_parse_character_literal_insensitive(case: &Case) -> R {
    setup!(case, input, st);
    let c = case.c;
    if !c.is_ascii() { return Ok(()); }              // requires: the generator only passes ASCII literals
    let r = parse_character_literal_insensitive(st, c);
    safe_result(input, &r)?;
    let rest = input[case.start..].as_bytes();
    if !rest.is_empty() && lower(rest[0]) == c as u8 {
        expect_matched(input, case.start, case.far, &r, 1)?;
        if r.unwrap().result != c { return Err("wrong character returned"); }
        Ok(())
    } else {
        expect_failed(case.start, case.far, &r, ParseErrorSpecifics::ExpectedCharacter { c })
    }
}

pub fn check_parse_end_of_input(case: &Case) -> R {
    setup!(case, input, st);
    let r = parse_end_of_input(st);
    safe_result(input, &r)?;
    if case.start == input.len() { expect_matched(input, case.start, case.far, &r, 0) }
    else { expect_failed(case.start, case.far, &r, ParseErrorSpecifics::ExpectedEoi) }
}

/// `ParseState::new(s, settings)`: the state holds exactly the caller's input at offset 0 and no recorded error
pub fn check_new(case: &Case) -> R {
    let input = match case.input() { Some(i) => i, None => return Ok(()) };
    let st = ParseState::new(input, &ParseSettings::default());
    if st.s().as_ptr() != input.as_ptr() || st.s().len() != input.len() || st.cache_key() != 0 {
        return Err("a fresh state does not hold the caller's input at offset 0: every offset, range and error position reported later is shifted");
    }
    let e = st.clone().report_farthest_error();
    if e.position != 0 || !spec_eq(&e.specifics, &ParseErrorSpecifics::Other) { return Err("a fresh state already carries a recorded error"); }
    Ok(())
}

pub fn check_advance_safe(case: &Case) -> R {
    setup!(case, input, st);
    let n = case.n;
    if case.start + n > input.len() || !input.is_char_boundary(case.start + n) { return Ok(()); }   // requires
    let r: ParseResult<()> = Ok(ParseOk { result: (), state: st.advance_safe(n) });
    safe_result(input, &r)?;
    expect_matched(input, case.start, case.far, &r, n)
}

pub fn check_advance(case: &Case) -> R {
    setup!(case, input, st);
    let n = case.n;
    if case.start + n > input.len() || !input.is_char_boundary(case.start + n) { return Ok(()); }   // requires
    // SAFETY: n is a char boundary of the remaining input (checked above)
    let r: ParseResult<()> = Ok(ParseOk { result: (), state: unsafe { st.advance(n) } });
    safe_result(input, &r)?;
    expect_matched(input, case.start, case.far, &r, n)
}

pub fn check_slice_range_until(case: &Case) -> R {
    setup!(case, input, st);
    let n = case.n;
    if case.start + n > input.len() || !input.is_char_boundary(case.start + n) { return Ok(()); }
    let other = unsafe { st.clone().advance(n) };
    if st.slice_until(&other) != &input[case.start..case.start + n] { return Err("slice_until is not the input between the two offsets"); }
    if st.range_until(&other) != (case.start..case.start + n) { return Err("range_until is not start..end"); }
    if st.cache_key() != case.start { return Err("cache_key is not the absolute offset"); }
    if other.is_further_than(&st) != (n > 0) || st.is_further_than(&other) { return Err("is_further_than is not strict >"); }
    Ok(())
}

pub fn check_record_report(case: &Case) -> R {
    setup!(case, input, st);
    // record an error at position n (a boundary), then report
    let p = case.n;
    if p > input.len() || !input.is_char_boundary(p) { return Ok(()); }
    let st2 = st.clone().record_error(ParseError { position: p, specifics: ParseErrorSpecifics::ExpectedAnyCharacter });
    if st2.cache_key() != case.start || st2.s() != st.s() { return Err("record_error moved the cursor"); }
    let e = st2.report_farthest_error();
    let want = match case.far { Some(f) if f > p => (f, ParseErrorSpecifics::ExpectedEoi), _ => (p, ParseErrorSpecifics::ExpectedAnyCharacter) };
    if e.position != want.0 || !spec_eq(&e.specifics, &want.1) { return Err("record_error did not keep the furthest error (newer wins ties)"); }
    let e2 = st.clone().report_error(ParseErrorSpecifics::NegativeLookaheadFailed);
    let want2 = furthest(case.far, case.start, ParseErrorSpecifics::NegativeLookaheadFailed);
    if e2.position != want2.0 || !spec_eq(&e2.specifics, &want2.1) { return Err("report_error is not furthest(recorded, own)"); }
    Ok(())
}

pub fn check_choice_helper(case: &Case) -> R {
    setup!(case, input, st);
    // three alternatives whose outcomes are driven by the case: bit i of n = alternative i succeeds
    let n = case.n;
    let mut calls = [false; 3];
    let errpos = [case.lit_len.min(input.len()), case.len.min(input.len()), case.start];
    for p in errpos { if !input.is_char_boundary(p) { return Ok(()); } }
    let mut h = ChoiceHelper::new(st.clone());
    for i in 0..3 {
        let ok = (n >> i) & 1 == 1;
        let c = &mut calls;
        h = h.choice(|s| { c[i] = true; if ok { Ok(ParseOk { result: i, state: s }) } else { Err(ParseError { position: errpos[i], specifics: ParseErrorSpecifics::ExpectedAnyCharacter }) } });
    }
    let r = h.end();
    let first = (0..3).find(|i| (n >> i) & 1 == 1);
    match (first, r) {
        (Some(w), Ok(ok)) => {
            if ok.result != w { return Err("choice did not commit to the first matching alternative"); }
            for i in 0..3 { if calls[i] != (i <= w) { return Err("an alternative after the winner was evaluated (or one before it skipped)"); } }
            Ok(())
        }
        (None, Err(e)) => {
            let mut best: Option<usize> = case.far;
            for p in errpos { best = Some(match best { Some(b) if b > p => b, _ => p }); }
            if Some(e.position) != best { return Err("choice did not report the furthest failure"); }
            Ok(())
        }
        _ => Err("choice result disagrees with the alternatives"),
    }
}

/// ParseState::first_n_chars (used by the tracer): the first n characters, never a panic
pub fn check_first_n_chars(case: &Case) -> R {
    setup!(case, input, st);
    let got = st.first_n_chars(case.n);
    let want: String = input[case.start..].chars().take(case.n).collect();
    if got != want { return Err("first_n_chars is not the first n characters of the remaining input"); }
    Ok(())
}

/// the memo table (`CacheEntries`) behaves as a map from absolute offsets to results: an entry stays until the
/// same key is inserted again, whatever other keys are inserted (C05, C06 rely on it)
pub fn check_cache_map(case: &Case) -> R {
    setup!(case, input, st);
    let (k1, k2, k3) = (case.k1, case.k2, case.k3);
    let mut c: CacheEntries<u8> = Default::default();
    if c.get(&k1).is_some() { return Err("a fresh cache is not empty"); }
    c.insert(k1, Ok(ParseOk { result: 1u8, state: st.clone() }));
    c.insert(k2, Err(ParseError { position: 7, specifics: ParseErrorSpecifics::ExpectedEoi }));
    match c.get(&k2) { Some(Err(e)) if e.position == 7 => {}, _ => return Err("the entry just inserted is not returned") }
    if k1 != k2 {
        match c.get(&k1) { Some(Ok(ok)) if ok.result == 1 && ok.state.cache_key() == case.start => {}, _ => return Err("inserting another position evicted or changed an entry") }
    }
    if k3 != k1 && k3 != k2 && c.get(&k3).is_some() { return Err("a position that was never inserted is found in the cache"); }
    Ok(())
}

/// IndentedTracer: any properly nested sequence of entries and exits, however deep, runs without a panic
/// (native only: it prints to stderr). Depth = case.k1.
pub fn check_tracer_nesting(case: &Case) -> R {
    setup!(case, input, st);
    let depth = case.k1;
    let mut t = IndentedTracer::new();
    let ok: ParseResult<()> = Ok(ParseOk { result: (), state: st.clone() });
    let err: ParseResult<()> = Err(ParseError { position: 0, specifics: ParseErrorSpecifics::ExpectedEoi });
    for i in 0..depth { t.print_trace_start(&st, "Rule"); if i % 3 == 0 { t.print_informative("Cache hit"); } }
    for i in 0..depth { t.print_trace_result(if i % 2 == 0 { &ok } else { &err }); }
    // a second round from the outermost level: the level must be back where it started
    t.print_trace_start(&st, "Rule");
    t.print_trace_result(&ok);
    Ok(())
}

pub const CHECKS: &[(&str, fn(&Case) -> R)] = &[
    ("IndentedTracer", check_tracer_nesting),
    ("ParseState::first_n_chars", check_first_n_chars),
    ("CacheEntries", check_cache_map),
    ("parse_char", check_parse_char),
    ("parse_Whitespace", check_parse_whitespace),
    ("parse_string_literal", check_parse_string_literal),
    ("parse_character_literal", check_parse_character_literal),
    ("parse_character_range", check_parse_character_range),
    ("parse_string_literal_insensitive", check_parse_string_literal_insensitive),
    ("parse_character_literal_insensitive", check_parse_character_literal_insensitive),
    ("parse_end_of_input", check_parse_end_of_input),
    ("ParseState::advance_safe", check_advance_safe),
    ("ParseState::advance", check_advance),
    ("ParseState::slice_until", check_slice_range_until),
    ("ParseState::record_error", check_record_report),
    ("ChoiceHelper::choice", check_choice_helper),
    ("ParseState::new", check_new),
];

#[cfg(kani)]
mod proofs {
    use super::*;
    struct K;
    impl Src for K {
        fn byte(&mut self) -> u8 { kani::any() }
        fn size(&mut self) -> usize { kani::any() }
        fn ch(&mut self) -> char { kani::any() }
        fn flag(&mut self) -> bool { kani::any() }
        fn assume(&mut self, b: bool) { kani::assume(b) }
    }
    macro_rules! twin {
        ($name:ident, $f:ident) => {
            #[kani::proof]
            #[kani::unwind(7)]
            fn $name() {
                let case = Case::from_src(&mut K);
                let r = $f(&case);
                assert!(r.is_ok(), "contract violated");
            }
        };
    }
    twin!(twin_parse_char, check_parse_char);
    twin!(twin_parse_whitespace, check_parse_whitespace);
    twin!(twin_parse_string_literal, check_parse_string_literal);
    twin!(twin_parse_character_literal, check_parse_character_literal);
    twin!(twin_parse_character_range, check_parse_character_range);
    twin!(twin_parse_string_literal_insensitive, check_parse_string_literal_insensitive);
    twin!(twin_parse_character_literal_insensitive, check_parse_character_literal_insensitive);
    twin!(twin_parse_end_of_input, check_parse_end_of_input);
    twin!(twin_advance_safe, check_advance_safe);
    twin!(twin_advance, check_advance);
    twin!(twin_slice_until, check_slice_range_until);
    twin!(twin_record_error, check_record_report);
    twin!(twin_choice_helper, check_choice_helper);
    twin!(twin_first_n_chars, check_first_n_chars);
    twin!(twin_cache_map, check_cache_map);
}
