//! native side of the twin harnesses:
//!   twin enumerate <fn|all>          exhaustive over a small alphabet (bounded stand-in / CE search)
//!   twin replay <fn> <json vals>     re-run one recorded case (Kani concrete playback bytes or an explicit case)
use runtime_cx::*;

const ALPHABET: &[&str] = &["a", "A", "z", "Z", "_", "[", "{", " ", "\t", "\n", "\x0B", "\x0C", "\r", "0", "é", "\u{a0}", "€", "\u{2003}", "😀", "\u{9c7c}", "\u{feff}"];
const CHARS: &[char] = &['a', 'A', 'z', 'Z', '_', '[', '{', ' ', '\n', '\x0B', '0', 'é', '\u{a0}', '€', '😀', '\u{9c7c}', '\u{e9}'];
const LITS: &[&str] = &["", "a", "ab", "aB", "é", "a_", "_[", "zz", " a", "€"];

fn inputs() -> Vec<String> {
    let mut v = vec![String::new()];
    let mut frontier = vec![String::new()];
    for _ in 0..3 {
        let mut next = vec![];
        for p in &frontier { for a in ALPHABET { let s = format!("{p}{a}"); if s.len() <= MAXLEN { next.push(s); } } }
        v.extend(next.iter().cloned());
        frontier = next;
    }
    v
}

/// what a failed contract check is about: 'safety' (cursor off a boundary / not a suffix of the input / panic),
/// 'error' (content of the reported or recorded error) or 'value' (match / no match, value, bytes consumed)
fn class_of(why: &str) -> &'static str {
    if why.contains("caller's input") { "all" }       // concerns every property that reads an offset
    else if why.contains("boundary") || why.contains("suffix") || why.contains("panic") { "safety" }
    else if why.contains("error") { "error" }
    else { "value" }
}

/// the first failing case PER CLASS; the enumeration always runs to the end
fn run(name: &str, f: fn(&Case) -> R) -> (Vec<(&'static str, Case, &'static str, u64)>, u64) {
    let mut fails: Vec<(&'static str, Case, &'static str, u64)> = vec![];
    let mut count = 0u64;
    for input in inputs() {
        if !uses(name, "input") && !input.is_empty() { continue; }
        let mut buf = [0u8; MAXLEN];
        buf[..input.len()].copy_from_slice(input.as_bytes());
        for start in 0..=input.len() {
            if !input.is_char_boundary(start) { continue; }
            for far in [None, Some(0), Some(input.len()), Some(start)] {
                if !uses(name, "input") && far.is_some() { continue; }
                for (ci, c) in CHARS.iter().enumerate() {
                    for c2 in [CHARS[(ci + 3) % CHARS.len()], *c, 'z', '\u{10ffff}', '\u{e9}', '\u{ff}', '\u{80}', '\u{7f}'] {
                        for lit in LITS {
                            let mut l = [0u8; 3];
                            if lit.len() > 3 { continue; }
                            l[..lit.len()].copy_from_slice(lit.as_bytes());
                            for n in 0..=(MAXLEN + 1) {
                                // prune dimensions a function does not read
                                if !uses(name, "c") && ci > 0 { continue; }
                                if !uses(name, "c2") && c2 != *c { continue; }
                                if !uses(name, "lit") && !lit.is_empty() { continue; }
                                if !uses(name, "n") && n > 0 { continue; }
                                for (k1, k2, k3) in keys(name) {
                                    let case = Case { buf, len: input.len(), start, far, c: *c, c2, lit: l, lit_len: lit.len(), n, k1, k2, k3 };
                                    count += 1;
                                    let verdict = match std::panic::catch_unwind(|| f(&case)) { Ok(v) => v, Err(_) => Err("the real function panicked") };
                                    if let Err(why) = verdict {
                                        let cl = class_of(why);
                                        if !fails.iter().any(|x| x.0 == cl) { fails.push((cl, case, why, count)); }
                                    }
                                }
                            }
                        }
                    }
                }
            }
        }
    }
    (fails, count)
}

/// memo-table keys worth trying: small offsets, around powers of two and typical table sizes, the extremes
fn keys(name: &str) -> Vec<(usize, usize, usize)> {
    if name == "IndentedTracer" { return [0usize, 1, 2, 3, 9, 31, 32, 33, 63, 64, 65, 66, 100, 127, 128, 129, 200, 255, 256, 257, 300].iter().map(|d| (*d, 0, 0)).collect(); }
    if name != "CacheEntries" { return vec![(0, 0, 0)]; }
    let mut ks: Vec<usize> = (0..10).collect();
    for sh in [4usize, 5, 6, 7, 8, 9, 10, 11, 12, 13, 14, 15, 16, 20, 24, 31, 32, 33, 48, 63] {
        let p = 1usize << sh;
        ks.extend([p - 1, p, p + 1, p + 3]);
    }
    ks.extend([1000, 1023, 1024 + 7, 2048 + 7, 4096 + 7, 65536 + 7, usize::MAX, usize::MAX - 1, usize::MAX / 2]);
    ks.sort(); ks.dedup();
    let mut v = vec![];
    for &a in &ks { for &b in &ks { v.push((a, b, a ^ b ^ 5)); } }
    v
}

fn uses(name: &str, dim: &str) -> bool {
    match dim {
        "c" => matches!(name, "parse_character_literal" | "parse_character_range" | "parse_character_literal_insensitive"),
        "c2" => name == "parse_character_range",
        "lit" => matches!(name, "parse_string_literal" | "parse_string_literal_insensitive" | "ChoiceHelper::choice"),
        "input" => name != "CacheEntries" && name != "IndentedTracer",
        "n" => matches!(name, "ParseState::first_n_chars" | "ParseState::advance_safe" | "ParseState::advance" | "ParseState::slice_until" | "ParseState::record_error" | "ChoiceHelper::choice"),
        _ => true,
    }
}

fn kv(case: &Case) -> String {
    let j = |b: &[u8]| b.iter().map(|x| x.to_string()).collect::<Vec<_>>().join(",");
    format!("buf={} len={} start={} far={} c={} c2={} lit={} litlen={} n={} k1={} k2={} k3={}", j(&case.buf), case.len, case.start,
        case.far.map(|f| f.to_string()).unwrap_or("none".into()), case.c as u32, case.c2 as u32, j(&case.lit), case.lit_len, case.n, case.k1, case.k2, case.k3)
}

fn parse_kv(args: &[String]) -> Case {
    let mut case = Case { buf: [0; MAXLEN], len: 0, start: 0, far: None, c: 'a', c2: 'a', lit: [0; 3], lit_len: 0, n: 0, k1: 0, k2: 0, k3: 0 };
    let bytes = |v: &str| -> Vec<u8> { v.split(',').filter(|x| !x.is_empty()).map(|x| x.parse().unwrap()).collect() };
    for a in args {
        let (k, v) = a.split_once('=').expect("k=v");
        match k {
            "buf" => { let b = bytes(v); case.buf[..b.len()].copy_from_slice(&b); }
            "len" => case.len = v.parse().unwrap(),
            "start" => case.start = v.parse().unwrap(),
            "far" => case.far = if v == "none" { None } else { Some(v.parse().unwrap()) },
            "c" => case.c = char::from_u32(v.parse().unwrap()).unwrap(),
            "c2" => case.c2 = char::from_u32(v.parse().unwrap()).unwrap(),
            "lit" => { let b = bytes(v); case.lit[..b.len()].copy_from_slice(&b); }
            "litlen" => case.lit_len = v.parse().unwrap(),
            "n" => case.n = v.parse().unwrap(),
            "k1" => case.k1 = v.parse().unwrap(),
            "k2" => case.k2 = v.parse().unwrap(),
            "k3" => case.k3 = v.parse().unwrap(),
            _ => panic!("unknown key"),
        }
    }
    case
}

fn show(case: &Case) -> String {
    let esc = |s: &str| s.chars().map(|c| if c == '"' || c == '\\' { format!("\\{c}") } else if (c as u32) < 0x20 { format!("\\u{:04x}", c as u32) } else { c.to_string() }).collect::<String>();
    format!("{{\"input\":\"{}\",\"input_bytes\":{:?},\"start\":{},\"recorded_error_at\":{},\"c\":\"U+{:04X}\",\"c2\":\"U+{:04X}\",\"literal_bytes\":{:?},\"n\":{},\"cache_keys\":[{},{},{}]}}",
        esc(&String::from_utf8_lossy(&case.buf[..case.len])), &case.buf[..case.len], case.start,
        case.far.map(|f| f.to_string()).unwrap_or("null".into()), case.c as u32, case.c2 as u32, &case.lit[..case.lit_len], case.n, case.k1, case.k2, case.k3)
}

fn main() {
    std::panic::set_hook(Box::new(|_| {}));
    let args: Vec<String> = std::env::args().collect();
    match args.get(1).map(|s| s.as_str()) {
        Some("enumerate") => {
            let which = args.get(2).map(|s| s.as_str()).unwrap_or("all");
            let mut bad = false;
            for (name, f) in CHECKS {
                if which != "all" && which != *name { continue; }
                let (fails, count) = run(name, *f);
                for (cl, case, why, after) in &fails {
                    bad = true;
                    println!("TWIN-FAIL {name} class={cl} after={after} why={why:?} case={} kv={}", show(case), kv(case));
                }
                if fails.is_empty() { println!("TWIN-PASS {name} cases={count}"); } else { println!("TWIN-DONE {name} cases={count}"); }
            }
            std::process::exit(if bad { 1 } else { 0 });
        }
        Some("replay") => {
            // twin replay <fn> <v0,v1,..;v0,v1..>   one ';'-separated byte vector per kani::any()
            let name = &args[2];
            let vals: Vec<Vec<u8>> = args[3].split(';').map(|v| v.split(',').filter(|x| !x.is_empty()).map(|x| x.trim().parse().unwrap()).collect()).collect();
            let mut src = Recorded::new(vals);
            let case = Case::from_src(&mut src);
            if !src.valid { println!("REPLAY-INVALID (assumption violated by recorded values)"); std::process::exit(2); }
            println!("CASE-KV {}", kv(&case));
            let f = CHECKS.iter().find(|(n, _)| n == name).expect("unknown twin").1;
            match std::panic::catch_unwind(|| f(&case)) {
                Ok(Ok(())) => { println!("REPLAY-PASS {name} case={}", show(&case)); }
                Ok(Err(why)) => { println!("REPLAY-FAIL {name} why={why:?} case={}", show(&case)); std::process::exit(1); }
                Err(_) => { println!("REPLAY-FAIL {name} why=\"panic\" case={}", show(&case)); std::process::exit(1); }
            }
        }
        Some("replay-case") => {
            let name = &args[2];
            let case = parse_kv(&args[3..]);
            let f = CHECKS.iter().find(|(n, _)| n == name).expect("unknown twin").1;
            match std::panic::catch_unwind(|| f(&case)) {
                Ok(Ok(())) => { println!("REPLAY-PASS {name} case={}", show(&case)); }
                Ok(Err(why)) => { println!("REPLAY-FAIL {name} why={why:?} case={}", show(&case)); std::process::exit(1); }
                Err(_) => { println!("REPLAY-FAIL {name} why=\"panic\" case={}", show(&case)); std::process::exit(1); }
            }
        }
        _ => { eprintln!("usage: twin enumerate <fn|all> | twin replay <fn> <vals>"); std::process::exit(2); }
    }
}
