"""The schema set (DESIGN §5.2). One construct (two where a case split needs it) per schema.
Field types in `extract` are the DOCUMENTED mapping (doc/syntax.md): a type assertion that fails to compile is a
C03 violation."""
from schemas import *

A, B, C, D = Call('A'), Call('B'), Call('C'), Call('D')
def fa(i=0, **k): return F('a', i, A, **k)
def fb(i=1, **k): return F('b', i, B, **k)
def fc(i=2, **k): return F('c', i, C, **k)
def fd(i=3, **k): return F('d', i, D, **k)

S = []

# a NECESSARY condition of C10 that also holds for memoized / left-recursive grammars: the reported offset is one at which some
# match attempt failed during the parse (reference side: every failed attempt, lookaheads included)
ERR_REAL = ('        if !real.ok && !real.sentinel && real.err < 8 && (oracle.failmask >> real.err) & 1 == 0 '
            '{ return Err("C10: the reported position is not an offset at which any match attempt failed during that parse"); }')

# ---------------------------------------------------------------------------------------------- expressions
S.append(Schema('seq_choice', [Rule('R', Seq(Opt(fa()), Grp(Alt(fa(), fb()))), skip=False, export=True)], 'R', 'AB', n=3,
    props=('C01', 'C02', 'C03', 'C10', 'C14'),
    extract=J(ty('v.a', 'Vec<A>'), ty('v.b', 'Option<B>'), vec(0, 'v.a'), opt(1, 'v.b')),
    note='[a:A] (a:A | b:B): optional, ordered choice, field used twice in a sequence -> Vec, choice-only field -> Option'))

S.append(Schema('seq3', [Rule('R', Seq(fa(), B, fc()), skip=False, export=True)], 'R', 'ABC', n=3,
    props=('C01', 'C02', 'C03', 'C10'),
    extract=J(ty('v.a', 'A'), ty('v.c', 'C'), one(0, 'v.a'), one(2, 'v.c')),
    note='a:A B c:C: plain sequence, unnamed part discarded, fields stored plainly'))

S.append(Schema('closure_plus', [Rule('R', Seq(Plus(Seq(fa(), fb())), fc()), skip=False, export=True)], 'R', 'ABC', n=3, nonzero='A',
    props=('C01', 'C02', 'C03', 'C10'),
    extract=J(ty('v.a', 'Vec<A>'), ty('v.b', 'Vec<B>'), ty('v.c', 'C'), vec(0, 'v.a'), vec(1, 'v.b'), one(2, 'v.c')),
    note='{a:A b:B}+ c:C: greedy repetition, at least one, abandoned last iteration leaves no trace'))

S.append(Schema('closure_star', [Rule('R', Seq(Star(fa()), Opt(fb()), Eoi()), skip=False, export=True)], 'R', 'AB', n=4, nonzero='A',
    props=('C01', 'C02', 'C03', 'C10'),
    extract=J(ty('v.a', 'Vec<A>'), ty('v.b', 'Option<B>'), vec(0, 'v.a'), opt(1, 'v.b')),
    note='{a:A} [b:B] $: closure never gives characters back, optional never fails, $ demands the end'))

S.append(Schema('lookahead', [Rule('R', Seq(Not(A), fb(), And(C), Opt(fc())), skip=False, export=True)], 'R', 'ABC', n=3,
    props=('C01', 'C02', 'C10'),
    extract=J(ty('v.b', 'B'), ty('v.c', 'Option<C>'), one(1, 'v.b'), opt(2, 'v.c')),
    note='!A b:B &C [c:C]: lookaheads consume nothing; failures inside count only if the lookahead as a whole fails'))

S.append(Schema('lookahead_nested', [Rule('R', Seq(Not(Seq(A, Not(B))), fc()), skip=False, export=True)], 'R', 'ABC', n=3,
    props=('C01', 'C10'),
    extract=J(one(2, 'v.c')),
    note='!(A !B) c:C'))

S.append(Schema('optional_multi', [Rule('R', Seq(Opt(Seq(fa(), fb())), fc()), skip=False, export=True)], 'R', 'ABC', n=3,
    props=('C01', 'C02', 'C03', 'C10'),
    extract=J(ty('v.a', 'Option<A>'), ty('v.b', 'Option<B>'), ty('v.c', 'C'), opt(0, 'v.a'), opt(1, 'v.b'), one(2, 'v.c')),
    note='[a:A b:B] c:C: an optional whose body fails half-way leaves no trace of a'))

S.append(Schema('choice_defaults', [Rule('R', Alt(Seq(fa(), fb()), fa(), Plus(fc())), skip=False, export=True)], 'R', 'ABC', n=3, nonzero='C',
    props=('C01', 'C02', 'C03', 'C10'),
    extract=J(ty('v.a', 'Option<A>'), ty('v.b', 'Option<B>'), ty('v.c', 'Vec<C>'), opt(0, 'v.a'), opt(1, 'v.b'), vec(2, 'v.c')),
    note='a:A b:B | a:A | {c:C}+: fields missing from an alternative default to None / empty Vec'))

S.append(Schema('choice_inline', [Rule('R', Seq(Grp(Alt(A, B, Seq())), fc()), skip=False, export=True)], 'R', 'ABC', n=3,
    props=('C01', 'C10'),
    extract=J(one(2, 'v.c')),
    note='(A | B | ) c:C: field-less inline choice with an empty alternative'))

S.append(Schema('enum_field', [Rule('R', Seq(Alt(F('f', 0, A), F('f', 0, B)), Opt(F('f', 0, C))), skip=False, export=True)], 'R', 'ABC', n=3,
    props=('C02', 'C03'),
    extract=J(ty('v.f', 'Vec<R_f>'),
              '                for e in v.f.iter() { let (t, op) = match e { R_f::A(t) => (*t, 0), R_f::B(t) => (*t, 1), R_f::C(t) => (*t, 2) }; o.f[0].push(if tag_op(t) == op { t } else { 9999 }); }'),
    note='(f:A | f:B) [f:C]: several rule types under one name -> generated enum, variant of the rule that matched'))

S.append(Schema('boxed', [Rule('R', Seq(fa(boxed=True), Opt(fb(boxed=True)), Star(fc(boxed=True))), skip=False, export=True)], 'R', 'ABC', n=3, nonzero='C',
    props=('C02', 'C03'),
    extract=J(ty('v.a', 'Box<A>'), ty('v.b', 'Option<Box<B>>'), ty('v.c', 'Vec<Box<C>>'), one(0, '*v.a'), optbox(1, 'v.b'),
              '                for t in v.c.iter() { o.f[2].push(**t); }'),
    note='a:*A [b:*B] {c:*C}: Box around exactly the marked types'))

S.append(Schema('box_merge', [Rule('R', Seq(fa(), fa(boxed=True)), skip=False, export=True)], 'R', 'A', n=3,
    props=('C03', 'C02'),
    extract=J(ty('v.a', 'Vec<Box<A>>'), '                for t in v.a.iter() { o.f[0].push(**t); }'),
    note='a:A a:*A: the * marker of a later occurrence of the same field and type is kept'))

S.append(Schema('override_simple', [Rule('R', Seq(fc(), F('o', 0, Ref('O'))), skip=False, export=True),
                                    Rule('O', Alt(Seq(A, F('_', 0, B, override=True)), F('_', 0, B, override=True)), skip=False)], 'R', 'ABC', n=3,
    props=('C02', 'C03', 'C01'),
    extract=J(ty('v.o', 'O'), ty('v.o', 'B'), one(2, 'v.c'), one(0, 'v.o')),
    note='O = A @:B | @:B: an override rule is an alias of the overridden type and yields the overridden value itself'))

S.append(Schema('override_enum', [Rule('R', Seq(F('o', 0, Ref('O')), Opt(fc())), skip=False, export=True),
                                  Rule('O', Alt(F('_', 0, A, override=True), F('_', 0, B, override=True)), skip=False)], 'R', 'ABC', n=3,
    props=('C02', 'C03'),
    extract=J('                let (t, op) = match &v.o { O::A(t) => (*t, 0), O::B(t) => (*t, 1) }; o.f[0].push(if tag_op(t) == op { t } else { 9999 });',
              opt(2, 'v.c')),
    note='O = @:A | @:B: enum override'))

# ---------------------------------------------------------------------------------------------- rule level
S.append(Schema('string_rule', [Rule('R', Seq(fc(), F('s', 0, Ref('Str')), Opt(fd())), skip=False, export=True),
                                Rule('Str', Seq(A, Star(B)), skip=False, string=(0, 1))], 'R', 'ABCD', n=3, nonzero='B',
    props=('C02', 'C03', 'C09', 'C04'),
    extract=J(ty('v.s', 'String'), ty('v.s', 'Str'), one(2, 'v.c'), opt(3, 'v.d'),
              '                let cs = tag_pos(v.c) + tag_len(v.c);',
              '                o.x[0] = cs as i32; o.x[1] = v.s.len() as i32;',
              '                if v.s.as_bytes() != &t.sym[cs..cs + v.s.len()] { o.x[2] = -1; }'),
    note='@string Str = A {B}: yields exactly the input slice it consumed'))

S.append(Schema('position_skip', [Rule('R', Seq(fc(), F('p', 0, Ref('P')), Opt(Lit('x'))), export=True),
                                  Rule('P', Seq(fa(), Opt(fb())), position=(0, 1))], 'R', 'ABC', n=3, alphabet='x ',
    props=('C09', 'C08', 'C03'),
    extract=J(ty('v.p.position', 'std::ops::Range<usize>'), one(2, 'v.c'), one(0, 'v.p.a'), opt(1, 'v.p.b'),
              '                o.x[0] = v.p.position.start as i32; o.x[1] = v.p.position.end as i32;'),
    note='@position P = a:A [b:B] inside a skipping rule: range starts after the whitespace the caller skipped'))

S.append(Schema('position_string', [Rule('R', Seq(F('p', 0, Ref('P')), Opt(fc())), export=True),
                                    Rule('P', Seq(A, Opt(B)), position=(0, 1), string=(2, 3), skip=False)], 'R', 'ABC', n=3, alphabet='x ',
    props=('C09', 'C03'),
    extract=J(ty('v.p.position', 'std::ops::Range<usize>'), ty('v.p.string', 'String'), opt(2, 'v.c'),
              '                o.x[0] = v.p.position.start as i32; o.x[1] = v.p.position.end as i32;',
              '                o.x[2] = v.p.position.start as i32; o.x[3] = v.p.string.len() as i32;',
              '                if v.p.string.as_bytes() != &t.sym[v.p.position.start..v.p.position.end] { o.x[4] = -1; }'),
    note='@string @position: the recorded string equals the input sliced by the recorded range'))

S.append(Schema('position_root', [Rule('R', Seq(fa(), Opt(fb())), export=True, position=(0, 1))], 'R', 'AB', n=3, alphabet='x ',
    props=('C09',), root_call=None,
    extract=J(one(0, 'v.a'), opt(1, 'v.b'), '                o.x[0] = v.position.start as i32; o.x[1] = v.position.end as i32;'),
    note='@export @position root: range starts at 0'))

CHK_M = '    pub fn chk_m(v: &M) -> bool { check(0, v.a) }\n    pub fn chk_m2(v: &M) -> bool { check(1, v.a) }\n'
def memo_rules(memo, checks):
    return [Rule('R', Alt(Seq(F('m', 0, Ref('M')), fc()), Seq(F('m', 0, Ref('M')), fd()), fb()), skip=False, export=True),
            Rule('M', Seq(fa(), Opt(B)), skip=False, memo=memo, checks=checks)]
MEMO_EXTRACT = J('                if let Some(m) = &v.m { o.f[0].push(m.a); }', opt(2, 'v.c'), opt(3, 'v.d'), opt(1, 'v.b'))

S.append(Schema('check2_plain', memo_rules(False, [(0, 'chk_m', 'first'), (1, 'chk_m2', 'first')]), 'R', 'ABCD', n=2, nchk=2,
    props=('C14', 'C01', 'C02', 'C10', 'C12'), support=CHK_M, extract=MEMO_EXTRACT,
    note='@check(chk_m) @check(chk_m2) M = a:A [B]: matches iff body matches and EVERY check accepts; failed check backtracks'))

S.append(Schema('memo_check', memo_rules(True, [(0, 'chk_m', 'first')]), 'R', 'ABCD', n=2, nchk=1,
    props=('C05', 'C06', 'C14'), support=CHK_M, extract=MEMO_EXTRACT, cmp_err=False,
    post='        if max_count(0) > 1 { return Err("C06: the body of a @memoize rule was evaluated more than once at one position"); }\n        if (0..NPOS).any(|p| unsafe { G.chk_calls[0][p] } > 1) { return Err("C06: a @check function reachable only through a @memoize rule ran more than once at one position"); }' + '\n' + ERR_REAL,
    note='m:M c:C | m:M d:D | b:B with @memoize @check M: same acceptance and tree as without @memoize; body at most once per position'))

S.append(Schema('memo_plain', memo_rules(True, []), 'R', 'ABCD', n=3,
    props=('C05', 'C06'), support=CHK_M, extract=MEMO_EXTRACT, cmp_err=False,
    post='        if max_count(0) > 1 { return Err("C06: the body of a @memoize rule was evaluated more than once at one position"); }' + '\n' + ERR_REAL,
    note='memoized M without checks, also when M fails'))

S.append(Schema('memo_string', [Rule('R', Alt(Seq(F('s', 0, Ref('M')), fc()), Seq(F('s', 0, Ref('M')), fd())), skip=False, export=True),
                                Rule('M', Seq(A, Opt(B)), skip=False, memo=True, string=(0, 1))], 'R', 'ABCD', n=3,
    props=('C05', 'C06', 'C09'), cmp_err=False,
    extract=J(opt(2, 'v.c'), opt(3, 'v.d'), '                o.x[0] = 0; o.x[1] = v.s.len() as i32;', '                if v.s.as_bytes() != &t.sym[0..v.s.len()] { o.x[2] = -1; }'),
    post='        if max_count(0) > 1 { return Err("C06: the body of a @memoize rule was evaluated more than once at one position"); }' + '\n' + ERR_REAL,
    note='@memoize @string'))

LR_EXTRACT = J('                fn walk(l: &L, o: &mut Obs) { if let Some(p) = &l.l { walk(p, o); } if let Some(t) = &l.a { o.f[0].push(*t); } if let Some(t) = &l.b { o.f[1].push(*t); } }',
               '                walk(&v.l, &mut o);', opt(2, 'v.c'))
S.append(Schema('leftrec_first', [Rule('R', Seq(F('l', 0, Ref('L')), Opt(fc())), skip=False, export=True),
                                  Rule('L', Alt(Seq(F('l', 0, Ref('L'), boxed=True), fb()), fa()), skip=False, leftrec=True)], 'R', 'ABC', n=4, nonzero='B',
    props=('C07', 'C10', 'C02', 'C03'), cmp_err=False,
    extract=J(ty('v.l.l', 'Option<Box<L>>'), LR_EXTRACT),
    note='@leftrec L = l:*L b:B | a:A: accepts a b* greedily, tree nested to the left'))

S.append(Schema('leftrec_last', [Rule('R', Seq(F('l', 0, Ref('L')), Opt(fc())), skip=False, export=True),
                                 Rule('L', Alt(fa(), Seq(F('l', 0, Ref('L'), boxed=True), fb())), skip=False, leftrec=True)], 'R', 'ABC', n=3, nonzero='B',
    props=('C07',), cmp_err=False, extract=LR_EXTRACT, allow_sentinel=True,
    note='@leftrec L = a:A | l:*L b:B: base alternative first (the sentinel may then be the reported detail: C10 only excludes it for recursive-alternatives-first rules)'))

S.append(Schema('leftrec_retry', [Rule('R', Alt(Seq(F('l', 0, Ref('L')), fc()), Seq(F('l', 0, Ref('L')), Opt(fd()))), skip=False, export=True),
                                  Rule('L', Alt(Seq(F('l', 0, Ref('L'), boxed=True), fb()), fa()), skip=False, leftrec=True)], 'R', 'ABCD', n=3, nonzero='B',
    props=('C07', 'C02', 'C05'), cmp_err=False,
    extract=J('                fn walk(l: &L, o: &mut Obs) { if let Some(p) = &l.l { walk(p, o); } if let Some(t) = &l.a { o.f[0].push(*t); } if let Some(t) = &l.b { o.f[1].push(*t); } }',
              '                walk(&v.l, &mut o);', opt(2, 'v.c'), opt(3, 'v.d')),
    note='l:L c:C | l:L [d:D]: the left-recursive rule is requested a second time at the same position'))

S.append(Schema('leftrec_nullable', [Rule('R', Seq(F('l', 0, Ref('L')), Opt(fc())), skip=False, export=True),
                                     Rule('L', Alt(Seq(F('l', 0, Ref('L'), boxed=True), fb()), Seq()), skip=False, leftrec=True)], 'R', 'BC', n=3, nonzero='B',
    props=('C07',), cmp_err=False,
    extract=J('                fn walk(l: &L, o: &mut Obs) { if let Some(p) = &l.l { walk(p, o); } if let Some(t) = &l.b { o.f[1].push(*t); } }',
              '                walk(&v.l, &mut o);', opt(2, 'v.c')),
    note='@leftrec L = l:*L b:B | ;  a seed that matches the empty string'))

S.append(Schema('position_root_bom', [Rule('R', Seq(fa()), export=True, position=(0, 1))], 'R', 'A', n=4, alphabet='\ufeffx ', via_public=True,
    props=('C09',),
    extract=J(one(0, 'v.a'), '                o.x[0] = v.position.start as i32; o.x[1] = v.position.end as i32; o.end = v.position.end;'),
    note='@export @position root through the public parse entry, inputs may start with U+FEFF: range is relative to the caller\'s input'))

S.append(Schema('optional_unnamed_rule', [Rule('R', Seq(Opt(Ref('S')), fc()), skip=False, export=True), Rule('S', Seq(A, B), skip=False)], 'R', 'ABC', n=3,
    props=('C10', 'C01'), extract=J(one(2, 'v.c')),
    note='[S] c:C with S = A B: the failure inside the abandoned optional is the furthest one'))

# ---------------------------------------------------------------------------------------------- include / whitespace
def optinc_rules(inline):
    return [Rule('R', Seq(Opt(Inc('I') if not inline else Grp(Ref('S2'))), fc()), skip=False, export=True),
            Rule('I', Ref('S2'), skip=False), Rule('S2', Seq(A, B), skip=False)]
S.append(Schema('opt_include', optinc_rules(False), 'R', 'ABC', n=3, props=('C13', 'C10'), extract=J(one(2, 'v.c')),
    note='[>I] c:C with I = S2, S2 = A B: include inside an optional'))
S.append(Schema('opt_inlined', optinc_rules(True), 'R', 'ABC', n=3, props=('C13', 'C10'), extract=J(one(2, 'v.c')), twin_of='opt_include',
    note='[(S2)] c:C: the same grammar with the include replaced by the parenthesised body'))

def inc_rules(inline, inc_skip=False, extra=()):
    incbody = Seq(fb(), Lit('y'))
    return [Rule('R', Seq(fa(), Opt(Inc('I') if not inline else Grp(incbody)), fc(), Eoi()), export=True),
            Rule('I', incbody, skip=inc_skip, extra_directives=extra)]
INC_EXTRACT = J(ty('v.b', 'Option<B>'), one(0, 'v.a'), opt(1, 'v.b'), one(2, 'v.c'))
S.append(Schema('include_noskip', inc_rules(False), 'R', 'ABC', n=3, alphabet='x y', props=('C13', 'C08', 'C01'), extract=INC_EXTRACT,
    note='a:A [>I] c:C $ with @no_skip_ws I = b:B \'y\': the included body uses the setting of the INCLUDING rule'))
S.append(Schema('include_inlined', inc_rules(True), 'R', 'ABC', n=3, alphabet='x y', props=('C13', 'C08'), extract=INC_EXTRACT,
    twin_of='include_noskip', note='the same grammar with the include replaced by the parenthesised body'))
S.append(Schema('include_directives', inc_rules(False, inc_skip=True, extra=('@memoize', '@position', '@check(crate::ops::never)')), 'R', 'ABC', n=3, alphabet='x y',
    props=('C13',), extract=INC_EXTRACT, support='',
    note='directives of the included rule (@memoize @position @check) have no effect at the include site'))

S.append(Schema('ws_tokens', [Rule('R', Seq(fa(), Lit('y'), Opt(fb()), Eoi()), export=True)], 'R', 'AB', n=4, alphabet='x y',
    props=('C08', 'C01'), extract=J(one(0, 'v.a'), opt(1, 'v.b')),
    note="a:A 'y' [b:B] $ in a skipping rule: whitespace skipped before every token, also before $"))
S.append(Schema('ws_noskip_calls_skip', [Rule('R', Seq(fa(), F('s', 0, Ref('Sk')), fc()), skip=False, export=True),
                                         Rule('Sk', Seq(fb(), Lit('y')), skip=True)], 'R', 'ABC', n=3, alphabet='x y',
    props=('C08',), extract=J(one(0, 'v.a'), one(1, 'v.s.b'), one(2, 'v.c')),
    note='a @no_skip_ws rule skips nothing itself; the rule it references keeps its own setting'))
S.append(Schema('ws_near_miss', [Rule('R', Seq(fa(), Lit('y'), Eoi()), export=True)], 'R', 'A', n=3, alphabet='y\x0b\t',
    props=('C08',), extract=J(one(0, 'v.a')), note='\\x0B is not whitespace, \\t is'))
S.append(Schema('ws_custom', [Rule('R', Seq(fa(), Lit('y'), Opt(fb()), Eoi()), export=True)], 'R', 'AB', n=4, alphabet='_ y', custom_ws='_',
    props=('C08',), extract=J(one(0, 'v.a'), opt(1, 'v.b')),
    note="a grammar-defined Whitespace = {'_'} replaces the built-in set (a space is then an ordinary character)"))
S.append(Schema('ws_lookahead_closure', [Rule('R', Seq(Not(Lit('y')), Star(fa()), Opt(Lit('y')), Eoi()), export=True)], 'R', 'A', n=4, alphabet='x y', nonzero='A',
    props=('C08', 'C01', 'C10'), extract=J(vec(0, 'v.a')), note="!'y' {a:A} ['y'] $: tokens inside lookahead / closure / optional"))

# ---------------------------------------------------------------------------------------------- terminals at the call site
S.append(Schema('term_literals', [Rule('R', Alt(Seq(Lit('yz'), fa()), Seq(Lit('yz', insensitive=True, src="i'Yz'"), fb()), Seq(Lit('q', insensitive=True, src="i'Q'"), Opt(fa())), Lit('z')), skip=False, export=True)], 'R', 'AB', n=3, alphabet='yzYZqQ',
    props=('C01', 'C10', 'C04'), extract=J(opt(0, 'v.a'), opt(1, 'v.b')),
    note="'yz' a:A | i'Yz' b:B | i'Q' [a:A] | 'z': literal case folding happens at generation time"))
S.append(Schema('term_range_char_eoi', [Rule('R', Seq(Rng('b', 'd'), F('k', 0, AnyChar()), Opt(Lit('\\x65', src="'\\x65'")), Eoi()), skip=False, export=True)], 'R', '', n=4, alphabet='abde',
    props=('C01', 'C02', 'C10', 'C12'),
    extract=J(ty('v.k', 'char'), '                o.f[0].push(1000 + v.k as u16);'),
    note="'b'..'d' k:char ['\\x65'] $: inclusive range, char field holds the character consumed, escapes decoded"))

S.append(Schema('char_rule', [Rule('R', Seq(F('k', 0, Ref('Cls')), Opt(F('j', 1, Ref('Cls'))), Eoi()), skip=False, export=True),
                              CharRule('Cls', [Lit('x'), Rng('b', 'c'), Ref('Other')]),
                              CharRule('Other', [Lit('y'), Lit('z')], check=(0, 'crate::ops::chk_char0'))], 'R', '', n=3, alphabet='xbcyza', nchk=1,
    props=('C01', 'C14', 'C03', 'C10'),
    extract=J(ty('v.k', 'Cls'), ty('v.k', 'char'), '                o.f[0].push(1000 + v.k as u16);', '                if let Some(j) = v.j { o.f[1].push(1000 + j as u16); }'),
    note='@char rules: literal, range and nested @char parts; @check on a @char rule sees the next character'))

# ---------------------------------------------------------------------------------------------- second batch
S.append(Schema('multi_extend', [Rule('R', Seq(Star(fa()), fa(), Opt(fa()), fb()), skip=False, export=True)], 'R', 'AB', n=4, nonzero='A',
    props=('C02', 'C03', 'C01', 'C10'),
    extract=J(ty('v.a', 'Vec<A>'), vec(0, 'v.a'), one(1, 'v.b')),
    note='{a:A} a:A [a:A] b:B: several occurrences of one field extend one Vec in input order'))

S.append(Schema('position_enum_override', [Rule('R', Seq(fc(), F('e', 0, Ref('E'))), export=True),
                                           Rule('E', Alt(F('_', 0, Ref('P'), override=True), F('_', 0, Ref('Q'), override=True)), extra_directives=('@position',)),
                                           Rule('P', Seq(fa()), position=(0, 1)), Rule('Q', Seq(fb()), position=(0, 1))], 'R', 'ABC', n=3, alphabet='x ',
    props=('C09', 'C03', 'C02'),
    extract=J('                use peginator::PegPosition;', one(2, 'v.c'),
              '                match &v.e { E::P(p) => o.f[0].push(p.a), E::Q(q) => o.f[1].push(q.b) }',
              '                o.x[0] = v.e.position().start as i32; o.x[1] = v.e.position().end as i32;'),
    note='@position E = @:P | @:Q: an enum override of @position rules reports the range of the rule that matched'))

S.append(Schema('check_string', [Rule('R', Alt(Seq(F('s', 0, Ref('St')), fc()), fd()), skip=False, export=True),
                                 Rule('St', Seq(A, Star(B)), skip=False, string=(0, 1), checks=[(0, 'crate::ops::chk_str0', 'string')])], 'R', 'ABCD', n=3, nchk=1, nonzero='B',
    props=('C14', 'C02', 'C10'),
    extract=J('                if let Some(s) = &v.s { o.x[0] = 0; o.x[1] = s.len() as i32; if s.as_bytes() != &t.sym[0..s.len()] { o.x[2] = -1; } }', opt(2, 'v.c'), opt(3, 'v.d')),
    note='@string @check: the check sees the finished string; a failed check backtracks to the next alternative'))

S.append(Schema('check_override', [Rule('R', Alt(Seq(F('o', 0, Ref('O')), fc()), fd()), skip=False, export=True),
                                   Rule('O', Alt(F('_', 0, A, override=True), Seq(B, F('_', 0, A, override=True))), skip=False, checks=[(0, 'crate::ops::chk0', 'first')])], 'R', 'ABCD', n=2, nchk=1,
    props=('C14', 'C02'),
    extract=J(opt(0, 'v.o'), opt(2, 'v.c'), opt(3, 'v.d')),
    note='@check on an override rule sees the overridden value'))

S.append(Schema('leftrec_indirect', [Rule('R', Seq(F('l', 0, Ref('L')), Opt(fc())), skip=False, export=True),
                                     Rule('L', Alt(Seq(F('m', 0, Ref('M')), fb()), fa()), skip=False, leftrec=True),
                                     Rule('M', Seq(F('l', 0, Ref('L'), boxed=True)), skip=False)], 'R', 'ABC', n=3, nonzero='B',
    props=('C07',), cmp_err=False,
    extract=J('                fn walk(l: &L, o: &mut Obs) { if let Some(m) = &l.m { walk(&m.l, o); } if let Some(t) = &l.a { o.f[0].push(*t); } if let Some(t) = &l.b { o.f[1].push(*t); } }',
              '                walk(&v.l, &mut o);', opt(2, 'v.c')),
    note='@leftrec L = m:M b:B | a:A with M = l:*L: left recursion through a non-memoized rule'))

S.append(Schema('extern_string', [Rule('R', Seq(fa(), Opt(fb())), skip=False, export=True)], 'R', 'AB', n=3, extern_str='A',
    props=('C14', 'C03'),
    extract=J(ty('v.a', 'String'), '                o.f[0].push(v.a.parse::<u16>().unwrap_or(9999));', opt(1, 'v.b')),
    note='@extern rule without a result type yields a String (converted with into)'))

S.append(Schema('include_nested', [Rule('R', Seq(fa(), Inc('I1'), Eoi()), export=True),
                                   Rule('I1', Seq(fb(), Inc('I2')), skip=False),
                                   Rule('I2', Seq(Opt(fc()), Lit('y')), skip=True)], 'R', 'ABC', n=3, alphabet='x y',
    props=('C13', 'C08'), extract=J(one(0, 'v.a'), one(1, 'v.b'), opt(2, 'v.c')),
    note='a:A >I1 $ with @no_skip_ws I1 = b:B >I2 and I2 = [c:C] y: nested includes all use the outermost rule\'s setting'))

S.append(Schema('include_choice_closure', [Rule('R', Alt(Seq(Plus(Inc('I')), Eoi()), fc()), skip=False, export=True),
                                           Rule('I', Alt(fa(), Seq(Lit('y'), fb())), skip=True)], 'R', 'ABC', n=3, alphabet='x y', nonzero='A',
    props=('C13',), extract=J(vec(0, 'v.a'), vec(1, 'v.b'), opt(2, 'v.c')),
    note='{>I}+ $ | c:C with I = a:A | y b:B (declared skipping, included by a @no_skip_ws rule): include of a choice inside a closure'))

S.append(Schema('derives_empty', [Rule('R', Seq(fa(), Opt(fb())), skip=False, export=True)], 'R', 'AB', n=3, derives=[],
    props=('C03',), extract=J(one(0, 'v.a'), opt(1, 'v.b')),
    note='empty derive set: generated types and parser still compile'))

S.append(Schema('memo_position', [Rule('R', Alt(Seq(F('m', 0, Ref('M')), fc()), Seq(F('m', 0, Ref('M')), fd())), export=True),
                                  Rule('M', Seq(fa(), Opt(B)), memo=True, position=(0, 1))], 'R', 'ABCD', n=2, alphabet='x ',
    props=('C05', 'C06', 'C09'), cmp_err=False,
    extract=J(one(0, 'v.m.a'), opt(2, 'v.c'), opt(3, 'v.d'), '                o.x[0] = v.m.position.start as i32; o.x[1] = v.m.position.end as i32;'),
    post='        if max_count(0) > 1 { return Err("C06: the body of a @memoize rule was evaluated more than once at one position"); }' + '\n' + ERR_REAL,
    note='@memoize @position in a skipping rule: a cache hit replays the same range'))

# ---------------------------------------------------------------------------------------------- third batch
LRC_SUPPORT = '    pub fn chk_l(v: &L) -> bool { fn depth(l: &L) -> usize { match &l.l { Some(p) => 1 + depth(p), None => 0 } } check(0, tag(9, depth(v), 0)) }\n'
S.append(Schema('leftrec_check', [Rule('R', Seq(F('l', 0, Ref('L')), Opt(fc())), skip=False, export=True),
                                  Rule('L', Alt(Seq(F('l', 0, Ref('L'), boxed=True), fb()), fa()), skip=False, leftrec=True, checks=[(0, 'chk_l', 'count', 1)])], 'R', 'ABC', n=3, nchk=1, nonzero='B',
    props=('C07', 'C14'), cmp_err=False, support=LRC_SUPPORT, extract=LR_EXTRACT,
    note='@leftrec @check L = l:*L b:B | a:A: a growth step the check rejects ends the growth, the last accepted tree is the result'))

S.append(Schema('leftrec_memoize', [Rule('R', Seq(F('l', 0, Ref('L')), Opt(fc())), skip=False, export=True),
                                    Rule('L', Alt(Seq(F('l', 0, Ref('L'), boxed=True), fb()), fa()), skip=False, leftrec=True, memo=True)], 'R', 'ABC', n=3, nonzero='B',
    props=('C07', 'C05', 'C01'), cmp_err=False, extract=LR_EXTRACT,
    note='@memoize @leftrec on one rule (redundant but legal): same result as @leftrec alone'))

S.append(Schema('ws_literal_leading_space', [Rule('R', Seq(fa(), Lit(' y'), Eoi()), export=True)], 'R', 'A', n=4, alphabet='x y',
    props=('C08', 'C01'), extract=J(one(0, 'v.a')),
    note="a:A ' y' $ in a skipping rule: whitespace is skipped before EVERY literal, also one that starts with a blank (which then cannot match after blanks)"))
S.append(Schema('ws_custom_literal_space', [Rule('R', Seq(fa(), Lit(' y'), Eoi()), export=True)], 'R', 'A', n=4, alphabet='_ y', custom_ws='_',
    props=('C08',), extract=J(one(0, 'v.a')),
    note="the same with Whitespace = {'_'}: the blank is an ordinary character, '_' is skipped in front of the literal"))

S.append(Schema('string_skipping', [Rule('R', Seq(fc(), F('s', 0, Ref('St')), fd()), skip=False, export=True),
                                    Rule('St', Seq(Star(B)), skip=True, string=(0, 1))], 'R', 'BCD', n=3, alphabet='x ', nonzero='B',
    props=('C08', 'C09', 'C02'),
    extract=J(one(2, 'v.c'), one(3, 'v.d'), '                let cs = tag_pos(v.c) + tag_len(v.c);', '                o.x[0] = cs as i32; o.x[1] = v.s.len() as i32;',
              '                if cs + v.s.len() > t.n || v.s.as_bytes() != &t.sym[cs..cs + v.s.len()] { o.x[2] = -1; }'),
    note='a skipping @string rule St = {B} called from a @no_skip_ws rule: no whitespace is skipped at rule entry, the slice starts where the rule was entered'))

S.append(Schema('memo_ws_from_noskip', [Rule('R', Alt(Seq(fc(), F('m', 0, Ref('M')), fd()), Seq(fc(), F('m', 0, Ref('M')))), skip=False, export=True),
                                        Rule('M', Seq(Opt(fa())), skip=True, memo=True, position=(0, 1))], 'R', 'ACD', n=3, alphabet='x ',
    props=('C05', 'C09'), cmp_err=False,
    extract=J(one(2, 'v.c'), opt(0, 'v.m.a'), opt(3, 'v.d'), '                o.x[0] = v.m.position.start as i32; o.x[1] = v.m.position.end as i32;'),
    note='a skipping @memoize @position rule with a nullable body called from a @no_skip_ws rule: the cache key is the offset where the rule was entered'))

S.append(Schema('position_closure', [Rule('R', Seq(fc(), Star(F('p', 0, Ref('P'))), Eoi()), export=True),
                                     Rule('P', Seq(fa()), position=(0, 1))], 'R', 'AC', n=4, alphabet='x ', nonzero='A',
    props=('C09', 'C08'),
    extract=J(one(2, 'v.c'), '                for p in v.p.iter() { o.f[0].push(p.a); o.x[0] = p.position.start as i32; o.x[1] = p.position.end as i32; }',
              '                let mut last = 0; for p in v.p.iter() { if p.position.start < last { o.x[2] = -1; } last = p.position.end; }'),
    note='c:C {p:P} $ with @position P: a rule reference that is the sole body of a closure still has the whitespace in front of it skipped by the caller'))

S.append(Schema('string_override', [Rule('R', Seq(F('s', 0, Ref('Sq')), Opt(fc())), skip=False, export=True),
                                    Rule('Sq', Seq(B, F('_', 1, A, override=True)), skip=False, string=(0, 1))], 'R', 'ABC', n=3, cmp_fields=False,
    props=('C03', 'C02'),
    extract=J(ty('v.s', 'String'), '                o.x[0] = 0; o.x[1] = v.s.len() as i32;', '                if v.s.as_bytes() != &t.sym[0..v.s.len()] { o.x[2] = -1; }'),
    note='@string Sq = B @:A: a @string rule is a String (the consumed slice) even when its body contains an override field'))

S.append(Schema('optional_nested', [Rule('R', Seq(Opt(Opt(fa())), Opt(Grp(Opt(fb()))), fc()), skip=False, export=True)], 'R', 'ABC', n=3,
    props=('C03', 'C01', 'C02'),
    extract=J(ty('v.a', 'Option<A>'), opt(0, 'v.a'), opt(1, 'v.b'), one(2, 'v.c')),
    note='[[a:A]] [([b:B])] c:C: an optional directly inside an optional'))

S.append(Schema('include_fieldless_check', [Rule('R', Seq(fa(), Inc('I'), fc()), export=True),
                                            Rule('I', Seq(B, Opt(Lit('y'))), checks=[(0, 'crate::ops::never', 'none')], memo=True)], 'R', 'ABC', n=3, alphabet='x y',
    props=('C13',), extract=J(one(0, 'v.a'), one(2, 'v.c')),
    note='a:A >I c:C with @memoize @check(never) I = B [y] (no fields): the directives of the included rule have no effect at the include site'))

S.append(Schema('include_chain', [Rule('R', Seq(fa(), Inc('I1'), Eoi()), skip=False, export=True),
                                  Rule('I1', Seq(Inc('I2'), fc()), skip=False), Rule('I2', Seq(fb()), skip=False)], 'R', 'ABC', n=3,
    props=('C13',), extract=J(one(0, 'v.a'), one(1, 'v.b'), one(2, 'v.c')),
    note='a:A >I1 $ with I1 = >I2 c:C and I2 = b:B: an included body that itself starts with an include keeps its remaining parts'))

S.append(Schema('leftrec_memo_inner', [Rule('R', Seq(F('l', 0, Ref('L')), Opt(fc())), skip=False, export=True),
                                       Rule('L', Alt(Seq(F('l', 0, Ref('L'), boxed=True), fb()), F('t', 0, Ref('T'))), skip=False, leftrec=True),
                                       Rule('T', Seq(fa()), skip=False, memo=True)], 'R', 'ABC', n=3, nonzero='B',
    props=('C06', 'C07', 'C05'), cmp_err=False,
    extract=J('                fn walk(l: &L, o: &mut Obs) { if let Some(p) = &l.l { walk(p, o); } if let Some(t) = &l.t { o.f[0].push(t.a); } if let Some(t) = &l.b { o.f[1].push(*t); } }',
              '                walk(&v.l, &mut o);', opt(2, 'v.c')),
    post='        if max_count(0) > 1 { return Err("C06: the body of a @memoize rule was evaluated more than once at one position"); }',
    note='@leftrec L = l:*L b:B | t:T with @memoize T = a:A: growing the left-recursive match re-requests T at the same position; it is answered from the cache'))

# ---------------------------------------------------------------------------------------------- nesting (two or three constructs deep)
S.append(Schema('nest_closure_choice', [Rule('R', Seq(Star(Grp(Alt(fa(), Seq(fb(), fc())))), Eoi()), skip=False, export=True)], 'R', 'ABC', n=3, nonzero='AB',
    props=('C01', 'C02', 'C03', 'C10'),
    extract=J(ty('v.a', 'Vec<A>'), ty('v.b', 'Vec<B>'), ty('v.c', 'Vec<C>'), vec(0, 'v.a'), vec(1, 'v.b'), vec(2, 'v.c')),
    note='{(a:A | b:B c:C)} $: ordered choice inside a closure, an abandoned second alternative leaves no trace'))

S.append(Schema('nest_opt_closure_opt', [Rule('R', Seq(Opt(Seq(fa(), Star(Seq(fb(), Opt(fc()))))), fd()), skip=False, export=True)], 'R', 'ABCD', n=2, nonzero='B',
    props=('C01', 'C02', 'C03', 'C10'),
    extract=J(ty('v.a', 'Option<A>'), ty('v.b', 'Vec<B>'), ty('v.c', 'Vec<C>'), opt(0, 'v.a'), vec(1, 'v.b'), vec(2, 'v.c'), one(3, 'v.d')),
    note='[a:A {b:B [c:C]}] d:D: optional inside a closure inside an optional'))

S.append(Schema('nest_choice_in_choice', [Rule('R', Alt(Seq(fa(), Grp(Alt(fb(), fc()))), Seq(fa(), fc()), fb()), skip=False, export=True)], 'R', 'ABC', n=3,
    props=('C01', 'C02', 'C03', 'C10'),
    extract=J(ty('v.a', 'Option<A>'), ty('v.b', 'Option<B>'), ty('v.c', 'Option<C>'), opt(0, 'v.a'), opt(1, 'v.b'), opt(2, 'v.c')),
    note='a:A (b:B | c:C) | a:A c:C | b:B: choice inside a choice arm; the outer choice commits to its first matching alternative'))

S.append(Schema('nest_lookahead_closure', [Rule('R', Seq(Star(Seq(Not(B), fa())), Opt(And(Seq(B, C))), Opt(fb())), skip=False, export=True)], 'R', 'ABC', n=3, nonzero='A',
    props=('C01', 'C02', 'C10'),
    extract=J(vec(0, 'v.a'), opt(1, 'v.b')),
    note='{!B a:A} [&(B C)] [b:B]: lookaheads inside a closure and an optional'))

S.append(Schema('nest_closure_in_closure', [Rule('R', Seq(Plus(Seq(fa(), Star(fb()))), Eoi()), skip=False, export=True)], 'R', 'AB', n=4, nonzero='AB',
    props=('C01', 'C02', 'C03'),
    extract=J(ty('v.a', 'Vec<A>'), ty('v.b', 'Vec<B>'), vec(0, 'v.a'), vec(1, 'v.b')),
    note='{a:A {b:B}}+ $: closure inside a closure'))

S.append(Schema('nest_rule_chain', [Rule('R', Seq(F('x', 0, Ref('X')), Opt(fd())), skip=False, export=True),
                                    Rule('X', Alt(F('y', 0, Ref('Y')), fc()), skip=False),
                                    Rule('Y', Seq(fa(), Opt(fb())), skip=False)], 'R', 'ABCD', n=2,
    props=('C01', 'C02', 'C03', 'C10'),
    extract=J(ty('v.x.y', 'Option<Y>'), '                if let Some(y) = &v.x.y { o.f[0].push(y.a); if let Some(b) = y.b { o.f[1].push(b); } }', opt(2, 'v.x.c'), opt(3, 'v.d')),
    note='R = x:X [d:D]; X = y:Y | c:C; Y = a:A [b:B]: struct rules three deep'))

S.append(Schema('nest_skip_mix', [Rule('R', Seq(fa(), Star(Seq(Lit('y'), F('n', 0, Ref('N')))), Eoi()), export=True),
                                  Rule('N', Seq(fb(), Opt(Lit('y'))), skip=False)], 'R', 'AB', n=4, alphabet='x y', nonzero='',
    props=('C08', 'C01', 'C02'),
    extract=J(one(0, 'v.a'), '                for n in v.n.iter() { o.f[1].push(n.b); }'),
    note="a:A {'y' n:N} $ with @no_skip_ws N = b:B ['y']: a skipping closure around a non-skipping rule"))

# ---------------------------------------------------------------------------------------------- fourth batch
S.append(Schema('ws_choice_nullable', [Rule('R', Seq(fa(), Grp(Alt(Lit('y'), Seq()))), export=True, position=(0, 1))], 'R', 'A', n=4, alphabet='x y',
    props=('C08', 'C01', 'C09'),
    extract=J(one(0, 'v.a'), '                o.x[0] = v.position.start as i32; o.x[1] = v.position.end as i32;'),
    note="@position R = a:A ('y' | ) in a skipping rule: when the empty alternative is taken no whitespace is consumed"))

S.append(Schema('ws_choice_opt_arm', [Rule('R', Seq(fa(), Grp(Alt(Opt(Lit('y')), Lit('x')))), export=True)], 'R', 'A', n=4, alphabet='x y',
    props=('C08', 'C01'), extract=J(one(0, 'v.a')),
    note="a:A (['y'] | 'x'): an inline choice whose first arm is an optional"))

S.append(Schema('check_position', [Rule('R', Alt(Seq(F('m', 0, Ref('M')), fc()), fd()), skip=False, export=True),
                                   Rule('M', Seq(fa(), Opt(B)), skip=False, position=(0, 1), checks=[(0, 'chk_m', 'first')])], 'R', 'ABCD', n=2, nchk=1,
    props=('C14', 'C09'), support='    pub fn chk_m(v: &M) -> bool { check(0, v.a) }\n',
    extract=J('                if let Some(m) = &v.m { o.f[0].push(m.a); o.x[0] = m.position.start as i32; o.x[1] = m.position.end as i32; }', opt(2, 'v.c'), opt(3, 'v.d')),
    note='@position @check M = a:A [B]: the check applies to a @position struct rule as well; a failed check backtracks'))

S.append(Schema('seq_rebind', [Rule('R', Seq(fa(), Star(Seq(fb(), fa())), fb()), skip=False, export=True)], 'R', 'AB', n=4, nonzero='B',
    props=('C02', 'C03', 'C01'),
    extract=J(ty('v.a', 'Vec<A>'), ty('v.b', 'Vec<B>'), vec(0, 'v.a'), vec(1, 'v.b')),
    note='a:A {b:B a:A} b:B: a multi-field part re-binds one field and first binds another, which a later part extends'))

S.append(Schema('string_insensitive', [Rule('R', Seq(F('v', 0, Ref('V')), Opt(fa(1))), skip=False, export=True),
                                       Rule('V', Seq(Lit('yz', insensitive=True, src="i'yZ'")), skip=False, string=(0, 1))], 'R', 'A', n=3, alphabet='yzYZ',
    props=('C02', 'C09'),
    extract=J(opt(1, 'v.a'), '                o.x[0] = 0; o.x[1] = v.v.len() as i32;', '                if v.v.as_bytes() != &t.sym[0..v.v.len().min(t.n)] { o.x[2] = -1; }'),
    note="@string V = i'yZ': the value is the input slice consumed, in the input's own case"))

S.append(Schema('opt_choice_fields', [Rule('R', Seq(Opt(Alt(fa(), fb())), fc()), skip=False, export=True)], 'R', 'ABC', n=3,
    props=('C03', 'C02', 'C01'),
    extract=J(ty('v.a', 'Option<A>'), ty('v.b', 'Option<B>'), opt(0, 'v.a'), opt(1, 'v.b'), one(2, 'v.c')),
    note='[a:A | b:B] c:C: a choice of differently named fields inside an optional that is part of a sequence'))
S.append(Schema('choice_arm_choice_fields', [Rule('R', Alt(Grp(Alt(fa(), fb())), fc()), skip=False, export=True)], 'R', 'ABC', n=3,
    props=('C03', 'C02'),
    extract=J(opt(0, 'v.a'), opt(1, 'v.b'), opt(2, 'v.c')),
    note='(a:A | b:B) | c:C: a choice of differently named fields as one arm of an outer choice'))

S.append(Schema('position_string_utf8', [Rule('R', Seq(F('p', 0, Ref('P')), Opt(fc())), skip=False, export=True),
                                         Rule('P', Seq(A, Opt(B)), position=(0, 1), string=(2, 3), skip=False)], 'R', 'ABC', n=3, alphabet='x\u00e9',
    props=('C09', 'C04'),
    extract=J(opt(2, 'v.c'), '                o.x[0] = v.p.position.start as i32; o.x[1] = v.p.position.end as i32;',
              '                o.x[2] = v.p.position.start as i32; o.x[3] = v.p.string.len() as i32;',
              '                if v.p.position.end > t.n || v.p.string.as_bytes() != &t.sym[v.p.position.start..v.p.position.end] { o.x[4] = -1; }'),
    post='        if real.ok && (real.x[1] < 0 || real.x[1] as usize > t.n || !t.input().is_char_boundary(real.x[1] as usize) || !t.input().is_char_boundary(real.x[0].max(0) as usize)) { return Err("C04: a recorded @position range does not start and end on character boundaries inside the input"); }',
    note='@string @position over input with multi-byte characters: the range is in bytes'))

S.append(Schema('include_same_name_other_body', inc_rules(False)[:1] + [Rule('I', Seq(fb(), Lit('x')), skip=False)], 'R', 'ABC', n=3, alphabet='x y',
    props=('C13',), extract=INC_EXTRACT,
    note="the grammar of include_noskip with I = b:B 'x' instead of b:B 'y' (compiled by the same generator process): each grammar's include uses its own rule body"))

KEYWORDS = ["as", "break", "const", "continue", "else", "enum", "extern", "false", "fn", "for", "if", "impl", "in", "let", "loop", "match",
            "mod", "move", "mut", "pub", "ref", "return", "static", "struct", "trait", "true", "type", "unsafe", "use", "where", "while",
            "async", "await", "dyn", "abstract", "become", "box", "do", "final", "macro", "override", "priv", "typeof", "unsized", "virtual",
            "yield", "try"]
S.append(Schema('keywords_all', [], 'R', '', expect='compile', props=('C03',), kani=False,
    raw_ebnf=("@export\nR = " + ' '.join('[%s:K]' % k for k in KEYWORDS) + ' ' + ' '.join('[f_%s:%s]' % (k, k) for k in KEYWORDS) + ";\nK = 'k';\n"
              + ''.join("%s = 'k' x:K;\n" % k for k in KEYWORDS)),
    note='every Rust keyword that can be a raw identifier, as field name and as rule name'))
S.append(Schema('field_named_like_unit_rule', [], 'R', '', expect='compile', props=('C03',), kani=False, isolated=True,
    raw_ebnf="@export\nR = [tok:tok] o:Other;\ntok = 't';\nOther = 'o';\n",
    note='a field with the same name as a field-less (unit struct) rule'))

S.append(Schema('g_lookahead', [Rule('R', Seq(Not(A), fb(), And(C)), skip=False, export=True)], 'R', 'ABC', n=3,
    props=('C01', 'C02', 'C10'), extract=J(one(1, 'v.b')),
    note='!A b:B &C (a rule with a single field is that field): also verified as generated code (layer G)'))

# ---------------------------------------------------------------------------------------------- extern / context / tracing
S.append(Schema('extern_ctx', [Rule('R', Seq(fa(), Opt(fb())), export=True)], 'R', 'AB', n=3, alphabet='x ', user_ctx='crate::ops::Ctx',
    props=('C14',), extract=J(one(0, 'v.a'), opt(1, 'v.b')),
    post='        if unsafe { G.ctx_seen } != total_count(0) + total_count(1) { return Err("C14: the configured user context was not passed to every extern call"); }',
    note='extern functions receive the user context when one is configured'))

S.append(Schema('trace_rules', [Rule('R', Alt(Seq(F('m', 0, Ref('M')), fc()), Seq(F('m', 0, Ref('M')), F('l', 1, Ref('L'))), fd()), skip=False, export=True),
                                Rule('M', Seq(fa()), skip=False, memo=True, checks=[(0, 'chk_m', 'first')]),
                                Rule('L', Alt(Seq(F('l', 1, Ref('L'), boxed=True), fb()), fb()), skip=False, leftrec=True)], 'R', 'ABCD', n=2, nchk=1, nonzero='B',
    props=('C19',), tracer=True, cmp_err=False, cmp_fields=False, support='    pub fn chk_m(v: &M) -> bool { check(0, v.a) }\n',
    # the tree is not compared with the reference semantics (cmp_fields=False) but with the run without a tracer (differential twin)
    extract=J('                if let Some(m) = &v.m { o.f[0].push(m.a); }', opt(2, 'v.c'), opt(3, 'v.d'),
              '                fn walk(l: &L, o: &mut Obs) { if let Some(p) = &l.l { walk(p, o); } o.f[1].push(l.b); }',
              '                if let Some(l) = &v.l { walk(l, &mut o); }'),
    post='        if !trace_balanced() { return Err("C19: rule entries and exits reported to the tracer are not properly nested"); }\n        if trace_events() == 0 { return Err("C19: tracer saw no rule entry"); }',
    note='with a recording tracer: every entry has exactly one exit also for failing, cached and left-recursive rules'))

# ---------------------------------------------------------------------------------------------- must be rejected / must compile
S.append(Schema('reject_nonascii_insensitive', [], 'R', '', expect='reject', props=('C04', 'C15'),
    raw_ebnf="@export\nR = i'\\u00e9' 'x';\n", note='a non-ASCII case-insensitive literal must be rejected by the generator (the runtime matcher requires ASCII)'))
S.append(Schema('keywords', [], 'R', '', expect='compile', props=('C03',), kani=False,
    raw_ebnf=("@export\nR = kind:struct name:fn | kind:enum name:fn | type:match;\nstruct = 's';\nenum = 'e';\nfn = 'f';\n"
              "match = @:struct | @:enum;\n"),
    note='rule and field names that are Rust keywords, also as variants of a generated enum'))
S.append(Schema('layout_variants', [], 'R', '', expect='same_as:layout_tight', props=('C12',), kani=False,
    raw_ebnf=("# comment with non-ASCII text: \u00e9 \u20ac \U0001F600\n@export   @no_skip_ws\nR   =\n  'a' .. 'z'   # range with layout\n  |  ( \"q\"  x : X )\n  ;\n\n@check(crate::ops::chk_char0)   @char   @check(crate::ops::chk_char0)\nX = '0' .. '9' | '_' ;\n"),
    note='layout, comments and quote style do not change the grammar that is read'))
S.append(Schema('layout_tight', [], 'R', '', expect='compile', props=('C12',), kani=False,
    raw_ebnf=("@export @no_skip_ws R='a'..'z'|('q' x:X);@char @check(crate::ops::chk_char0) @check(crate::ops::chk_char0) X='0'..'9'|'_';"), note='tight layout twin (both @check directives after @char)'))

# ---------------------------------------------------------------------------------------------- fifth batch (after seeding round 4)
# C14: a @char class with a SINGLE literal / range arm and a @check (a specialised single-arm path must still call the check)
S.append(Schema('char_rule_single', [Rule('R', Seq(F('k', 0, Ref('Rg')), Opt(F('j', 1, Ref('Lt'))), Eoi()), skip=False, export=True),
                                     CharRule('Rg', [Rng('b', 'd')], check=(0, 'crate::ops::chk_char0')),
                                     CharRule('Lt', [Lit('x')], check=(0, 'crate::ops::chk_char0'))], 'R', '', n=3, alphabet='xbcda', nchk=1,
    props=('C14', 'C01'),
    extract=J(ty('v.k', 'char'), '                o.f[0].push(1000 + v.k as u16);', '                if let Some(j) = v.j { o.f[1].push(1000 + j as u16); }'),
    note='@check on @char rules with exactly one range / one literal arm: the check still decides'))

# C13: the same rule included twice below an outer include (a diamond): acyclic, must be accepted and behave like the inlined text
S.append(Schema('include_diamond', [Rule('R', Seq(Inc('P'), Eoi()), skip=False, export=True),
                                    Rule('P', Seq(Inc('I'), fc(), Inc('I')), skip=False), Rule('I', Seq(fa()), skip=False)], 'R', 'AC', n=3,
    props=('C13',), extract=J(ty('v.a', 'Vec<A>'), vec(0, 'v.a'), one(2, 'v.c')),
    note='>P $ with P = >I c:C >I and I = a:A: a rule reached twice below an outer include is not a cycle'))

# C13 / C03: a boxed field keeps its Box through an include
S.append(Schema('include_boxed', [Rule('R', Seq(fa(), Opt(Inc('I')), Eoi()), skip=False, export=True),
                                  Rule('I', Seq(fb(boxed=True), Star(fc(boxed=True))), skip=False)], 'R', 'ABC', n=3, nonzero='C',
    props=('C13', 'C03'), extract=J(ty('v.b', 'Option<Box<B>>'), ty('v.c', 'Vec<Box<C>>'), one(0, 'v.a'), optbox(1, 'v.b'), '                for t in v.c.iter() { o.f[2].push(**t); }'),
    note='a:A [>I] $ with I = b:*B {c:*C}: boxed fields of the included body are boxed in the including rule'))

# C05 / C13: a @memoize @check rule that failed at a position is afterwards INCLUDED at the same position: the include runs the bare
# body (no check, no cache)
S.append(Schema('memo_include', [Rule('R', Alt(Seq(F('m', 0, Ref('M')), fc()), Seq(Inc('M'), fd())), skip=False, export=True),
                                 Rule('M', Seq(fa()), skip=False, memo=True, checks=[(0, 'chk_m', 'first')])], 'R', 'ACD', n=2, nchk=1,
    props=('C05', 'C13', 'C14'), support='    pub fn chk_m(v: &M) -> bool { check(0, v.a) }\n', cmp_err=False,
    extract=J('                if let Some(m) = &v.m { o.f[0].push(m.a); }', opt(0, 'v.a'), opt(2, 'v.c'), opt(3, 'v.d')),
    note='m:M c:C | >M d:D with @memoize @check M = a:A: a cached failure of the rule says nothing about its included body'))

# C07: the recursive reference of a @leftrec rule is UNNAMED (the growth loop must not depend on the rule having a recursive field)
S.append(Schema('leftrec_unnamed', [Rule('R', Seq(F('l', 0, Ref('L')), Opt(fc())), skip=False, export=True),
                                    Rule('L', Alt(Seq(Ref('L'), fb()), fa()), skip=False, leftrec=True)], 'R', 'ABC', n=3, nonzero='B',
    props=('C07',), cmp_err=False, cmp_fields=False,
    extract=J(opt(2, 'v.c')),
    note='@leftrec L = L b:B | a:A with an unnamed recursive reference: accepts a b* greedily and terminates'))

# C07: everything after the recursive reference can match empty: a re-evaluation that does not get further must not replace the result
S.append(Schema('leftrec_optional_tail', [Rule('R', Seq(F('l', 0, Ref('L')), Opt(fc())), skip=False, export=True),
                                          Rule('L', Alt(Seq(F('l', 0, Ref('L'), boxed=True), Opt(fb())), fa()), skip=False, leftrec=True)], 'R', 'ABC', n=3, nonzero='B',
    props=('C07', 'C02'), cmp_err=False,
    extract=J('                fn walk(l: &L, o: &mut Obs, nodes: &mut i32) { *nodes += 1; if let Some(p) = &l.l { walk(p, o, nodes); } if let Some(t) = &l.a { o.f[0].push(*t); } if let Some(t) = &l.b { o.f[1].push(*t); } }',
              '                let mut nodes = 0i32; walk(&v.l, &mut o, &mut nodes);', opt(2, 'v.c'),
              '                unsafe { G.aux[0] = nodes - 1 - o.f[1].n as i32; }'),
    post='        if real.ok && unsafe { G.aux[0] } != 0 { return Err("C07: the tree of a @leftrec rule has a node that no growth step produced (or lacks one)"); }',
    note='@leftrec L = l:*L [b:B] | a:A: growth continues only while the match gets strictly further; one node per growth step'))

# C09 / C08: a negative lookahead at the END of a skipping @position rule consumes nothing, also no blanks
S.append(Schema('ws_lookahead_tail', [Rule('R', Seq(F('p', 0, Ref('P')), Opt(fc())), export=True),
                                      Rule('P', Seq(fa(), Not(B)), position=(0, 1))], 'R', 'ABC', n=3, alphabet='x ',
    props=('C09', 'C08'),
    extract=J(one(0, 'v.p.a'), opt(2, 'v.c'), '                o.x[0] = v.p.position.start as i32; o.x[1] = v.p.position.end as i32;'),
    note='p:P [c:C] with @position P = a:A !B in skipping rules: the range ends where a:A ended, not after the blanks the lookahead looked past'))

# C09 / C05: a skipping @memoize @position rule entered at the same token once BEFORE the blanks (from a @no_skip_ws rule) and once
# AFTER them (from a skipping rule): two different cache keys, two different ranges
S.append(Schema('memo_position_two_entries', [Rule('R', Alt(Seq(fc(), F('m', 0, Ref('M')), fd()), Seq(fc(), F('t', 1, Ref('T')))), skip=False, export=True),
                                              Rule('T', Seq(F('m', 0, Ref('M'))), skip=True),
                                              Rule('M', Seq(fa()), skip=True, memo=True, position=(0, 1))], 'R', 'ACD', n=3, alphabet='x ',
    props=('C05', 'C09'), cmp_err=False,
    extract=J(one(2, 'v.c'), opt(3, 'v.d'),
              '                if let Some(m) = &v.m { o.f[0].push(m.a); o.x[0] = m.position.start as i32; o.x[1] = m.position.end as i32; }',
              '                if let Some(t) = &v.t { o.f[0].push(t.m.a); o.x[0] = t.m.position.start as i32; o.x[1] = t.m.position.end as i32; }'),
    note='c:C m:M d:D | c:C t:T with T = m:M (skipping) and a skipping @memoize @position M = a:A: the range of a cache hit is the range of THAT entry'))

# C02 / C08: the whitespace an abandoned alternative skipped is not consumed when an empty alternative wins: the next char field sees it
S.append(Schema('ws_choice_then_char', [Rule('R', Seq(F('s', 0, Ref('Sg')), F('k', 1, AnyChar())), skip=False, export=True),
                                        Rule('Sg', Seq(fa(), Grp(Alt(Lit('y'), Seq()))), skip=True)], 'R', 'A', n=4, alphabet='x y',
    props=('C02', 'C08'),
    extract=J(one(0, 'v.s.a'), '                o.f[1].push(1000 + v.k as u16);'),
    note="s:Sg k:char with a skipping Sg = a:A ('y' | ) called from a @no_skip_ws rule: when the empty alternative wins, k is the blank"))

# C10 (memoized grammars: "an offset at which some attempt really failed during that parse"): a @memoize rule fails inside a
# succeeding negative lookahead and is needed again at the same offset: the cache hit must report where the rule really failed
S.append(Schema('memo_lookahead_reuse', [Rule('R', Seq(Not(Seq(Ref('M'), D)), F('m', 0, Ref('M')), fc()), skip=False, export=True),
                                         Rule('M', Seq(fa(), fb()), skip=False, memo=True)], 'R', 'ABCD', n=2,
    props=('C10', 'C05'), cmp_err=False,
    extract=J(one(0, 'v.m.a'), one(1, 'v.m.b'), one(2, 'v.c')),
    post=ERR_REAL,
    note='!(M D) m:M c:C with @memoize M = a:A b:B: a cached failure is reported at the offset where it happened'))

# C14: in a @no_skip_ws rule an extern function is handed the input exactly at the current offset, blanks included
S.append(Schema('extern_noskip_blanks', [Rule('R', Seq(fa(), Opt(fb()), Eoi()), skip=False, export=True)], 'R', 'AB', n=3, alphabet='x ',
    props=('C14',), extract=J(one(0, 'v.a'), opt(1, 'v.b')),
    note='@no_skip_ws R = a:A [b:B] $ over inputs with blanks: nothing is skipped or trimmed in front of an extern call'))

# C05 on DEEP inputs (a fixed family far outside the enumeration bound): nested brackets, two @memoize rules per level
S.append(Schema('memo_deep', [Rule('R', Seq(Ref('L'), Eoi()), skip=False, export=True),
                              Rule('L', Alt(Seq(Lit('y'), Ref('I'), Lit('z')), Lit('x')), skip=False, memo=True),
                              Rule('I', Seq(Ref('L')), skip=False, memo=True)], 'R', '', n=3, alphabet='xyz',
    props=('C05', 'C01'), cmp_fields=False, extract='', deep=('y', 'x', 'z'),
    note="L $ with @memoize L = 'y' I 'z' | 'x' and @memoize I = L: also for nesting depths 1..2000 the memoized and the plain parser agree"))

# ---------------------------------------------------------------------------------------------- sixth batch (after seeding round 5)
# C03: a multi-field optional group one of whose fields occurs again in the rule (-> Vec): the value built for the skipped group
S.append(Schema('optional_field_reused', [Rule('R', Seq(Opt(Seq(fa(), fb())), fa()), skip=False, export=True)], 'R', 'AB', n=3,
    props=('C03', 'C02'), extract=J(ty('v.a', 'Vec<A>'), ty('v.b', 'Option<B>'), vec(0, 'v.a'), opt(1, 'v.b')),
    note='[a:A b:B] a:A: a field of a multi-field optional that is a Vec at rule level'))

# C03: a field named like a local of the closure template
S.append(Schema('closure_field_named_result', [Rule('R', Seq(Star(F('result', 0, A)), Opt(fb()), Eoi()), skip=False, export=True)], 'R', 'AB', n=3, nonzero='A',
    props=('C03',), extract=J(ty('v.result', 'Vec<A>'), vec(0, 'v.result'), opt(1, 'v.b')),
    note='{result:A} [b:B] $: field names do not collide with the names the templates use for their own locals'))

# C06: @memoize with a configured user context
S.append(Schema('memo_user_ctx', [Rule('R', Alt(Seq(F('m', 0, Ref('M')), fc()), Seq(F('m', 0, Ref('M')), fd())), skip=False, export=True),
                                  Rule('M', Seq(fa()), skip=False, memo=True)], 'R', 'ACD', n=3, user_ctx='crate::ops::Ctx',
    props=('C06', 'C05'), cmp_err=False,
    extract=J('                o.f[0].push(v.m.a);', opt(2, 'v.c'), opt(3, 'v.d')),
    post='        if max_count(0) > 1 { return Err("C06: the body of a @memoize rule was evaluated more than once at one position"); }',
    note='m:M c:C | m:M d:D with @memoize M = a:A and a user context type: the packrat bound does not depend on the context setting'))

# C06: a memoized FAILURE is answered from the cache also after another alternative has failed further on
S.append(Schema('memo_failure_reuse', [Rule('R', Alt(Seq(F('m', 0, Ref('M')), fc()), Seq(fd(), fc()), Seq(F('m', 0, Ref('M')), fd())), skip=False, export=True),
                                       Rule('M', Seq(fa(), fb()), skip=False, memo=True)], 'R', 'ABCD', n=2,
    props=('C06', 'C05'), cmp_err=False,
    extract=J('                if let Some(m) = &v.m { o.f[0].push(m.a); o.f[1].push(m.b); }', opt(2, 'v.c'), opt(3, 'v.d')),
    post='        if max_count(0) > 1 || max_count(1) > 1 { return Err("C06: the body of a @memoize rule was evaluated more than once at one position"); }',
    note='m:M c:C | d:D c:C | m:M d:D with @memoize M = a:A b:B: a failure cached at a position is reused whatever was recorded since'))

# C08: a @char rule that refers to another @char rule by name skips nothing
S.append(Schema('char_rule_ws', [Rule('R', Seq(F('k', 0, Ref('Cl')), Opt(F('j', 1, Ref('Cl'))), Eoi()), skip=False, export=True),
                                 CharRule('Cl', [Lit('x'), Ref('Ot')]), CharRule('Ot', [Lit('y')])], 'R', '', n=3, alphabet='xy ',
    props=('C08', 'C01'),
    extract=J('                o.f[0].push(1000 + v.k as u16);', '                if let Some(j) = v.j { o.f[1].push(1000 + j as u16); }'),
    note="@no_skip_ws R = k:Cl [j:Cl] $ with @char Cl = 'x' | Ot and @char Ot = 'y': no blank is skipped in front of a nested @char reference"))

# C01 / C12: a case-insensitive literal that starts with a non-letter is still case-insensitive
S.append(Schema('term_insensitive_nonletter', [Rule('R', Seq(Lit('1y', insensitive=True, src="i'1Y'"), Opt(fa()), Eoi()), skip=False, export=True)], 'R', 'A', n=3, alphabet='1yY',
    props=('C01', 'C12'), extract=J(opt(0, 'v.a')),
    note="i'1Y' [a:A] $: the i marker applies to every letter of the literal, wherever it stands"))

# C04 / C01: a closure directly over a character range that contains multi-byte characters, in a @no_skip_ws rule
S.append(Schema('term_closure_range_utf8', [Rule('R', Seq(Plus(Rng('a', '\u00e9')), Opt(fa()), Eoi()), skip=False, export=True)], 'R', 'A', n=4, alphabet='a\u00e9z',
    props=('C04', 'C01'), extract=J(opt(0, 'v.a')),
    note="{'a'..'\u00e9'}+ [a:A] $: the repetition consumes whole characters, whatever their encoded length"))

# ---------------------------------------------------------------------------------------------- differential twins
# C13 / C05 / C19 are statements of the form "with the feature the parser behaves exactly as without it". They are decided by
# running the schema and an automatically derived twin (same tree, operands, alphabet, bound; the feature removed) on every
# table and comparing the two REAL runs - so a change that breaks both sides alike is not reported under these properties.
from schemas import derive_twin, has_include
for _s in list(S):
    if _s.expect != 'ok' or _s.isolated or _s.raw_ebnf is not None: continue
    if has_include(_s): S.append(derive_twin(_s, 'inl'))
    # C05 excludes rules that are part of a left-recursive cycle: only @memoize on ordinary rules is toggled
    if 'C05' in _s.props and any(getattr(r, 'memo', False) and not getattr(r, 'leftrec', False) for r in _s.rules): S.append(derive_twin(_s, 'nomemo'))
    if _s.tracer: S.append(derive_twin(_s, 'notrace'))

SCHEMAS = {s.name: s for s in S}
