#!/usr/bin/env python3
"""Schema grammars for layer T (DESIGN §5): every schema is written ONCE as an expression tree; from it this
script emits (a) the grammar text handed to the tree's generator, and (b) the reference semantics (oracle) as
straight-line Rust, one fn per node, written from the syntax reference (doc/syntax.md), not from the generator.
Hand-written per schema: how to read the generated Rust value back into tag lists (`extract`), which also pins
the documented types (C03), and schema-specific post-conditions."""
import os, sys, json

OPS = 'ABCD'

# ------------------------------------------------------------------------------------------------ nodes
class N:
    pass
class Call(N):        # unnamed reference to abstract operand rule A..D
    def __init__(s, op): s.op = op
class F(N):           # named field  name:Type  (idx = observation slot); node is Call or Ref
    def __init__(s, name, idx, node, boxed=False, override=False): s.name, s.idx, s.node, s.boxed, s.override = name, idx, node, boxed, override
class Seq(N):
    def __init__(s, *xs): s.xs = xs
class Alt(N):
    def __init__(s, *xs): s.xs = xs
class Opt(N):
    def __init__(s, x): s.x = x
class Star(N):
    def __init__(s, x): s.x = x
class Plus(N):
    def __init__(s, x): s.x = x
class Not(N):
    def __init__(s, x): s.x = x
class And(N):
    def __init__(s, x): s.x = x
class Lit(N):
    def __init__(s, text, insensitive=False, src=None): s.text, s.insensitive, s.src = text, insensitive, src
class Rng(N):
    def __init__(s, lo, hi, src=None): s.lo, s.hi, s.src = lo, hi, src
class AnyChar(N):
    pass
class Eoi(N):
    pass
class Ref(N):         # unnamed reference to a normal rule of the schema
    def __init__(s, rule): s.rule = rule
class Inc(N):         # >Rule
    def __init__(s, rule): s.rule = rule
class Grp(N):         # parenthesised group
    def __init__(s, x): s.x = x

class Rule:
    def __init__(s, name, body, skip=True, export=False, memo=False, leftrec=False, checks=(), position=None,
                 string=None, extra_directives=()):
        s.name, s.body, s.skip, s.export, s.memo, s.leftrec = name, body, skip, export, memo, leftrec
        s.checks = list(checks)        # [(table index, rust fn path used in the grammar, key: 'first'|'string')]
        s.position = position          # (x index of start, x index of end) or None
        s.string = string              # None or x-index pair (start,len) for @string rules
        s.extra = list(extra_directives)

class CharRule:
    def __init__(s, name, parts, check=None):
        s.name, s.parts, s.check = name, parts, check   # parts: list of Lit(1 char)/Rng/Ref-to-char-rule

class Schema:
    def __init__(s, name, rules, root, ops, n=3, alphabet='x', props=(), extract='', support='', post='', types='',
                 nonzero=(), cmp_err=True, cmp_fields=True, custom_ws=None, nchk=0, user_ctx=None, derives=None,
                 tracer=False, allow_sentinel=False, via_public=False, extern_str='', isolated=False, expect='ok', raw_ebnf=None, note='', kani=True, twin_of=None, root_call=None,
                 aux_of=None, aux_kind=None, inline_includes=False, deep=None):
        s.__dict__.update(locals()); del s.__dict__['s']

# ------------------------------------------------------------------------------------------------ grammar text
def ebnf_node(n, top=False):
    if isinstance(n, Call): return n.op
    if isinstance(n, F):
        inner = n.node.op if isinstance(n.node, Call) else ('char' if isinstance(n.node, AnyChar) else n.node.rule)
        return ('@' if n.override else n.name) + ':' + ('*' if n.boxed else '') + inner
    if isinstance(n, Seq): return ' '.join(ebnf_node(x) for x in n.xs)
    if isinstance(n, Alt):
        t = ' | '.join(ebnf_node(x) for x in n.xs)
        return t if top else '(' + t + ')'
    if isinstance(n, Grp): return '(' + ebnf_node(n.x, True) + ')'
    if isinstance(n, Opt): return '[' + ebnf_node(n.x, True) + ']'
    if isinstance(n, Star): return '{' + ebnf_node(n.x, True) + '}'
    if isinstance(n, Plus): return '{' + ebnf_node(n.x, True) + '}+'
    if isinstance(n, Not): return '!' + ebnf_atom(n.x)
    if isinstance(n, And): return '&' + ebnf_atom(n.x)
    if isinstance(n, Lit): return n.src or (('i' if n.insensitive else '') + "'" + n.text + "'")
    if isinstance(n, Rng): return n.src or ("'%s'..'%s'" % (n.lo, n.hi))
    if isinstance(n, AnyChar): return 'char'
    if isinstance(n, Eoi): return '$'
    if isinstance(n, Ref): return n.rule
    if isinstance(n, Inc):
        if _INLINE_RULES is not None:
            # differential twin for C13: "the grammar obtained by textually replacing that include with the parenthesised body of the rule"
            return '(' + ebnf_node(_INLINE_RULES[n.rule].body, True) + ')'
        return '>' + n.rule
    raise Exception('ebnf: ' + repr(n))

_INLINE_RULES = None

def has_include(schema):
    def walk(n):
        if isinstance(n, Inc): return True
        for k in ('xs',):
            if hasattr(n, k) and any(walk(x) for x in getattr(n, k)): return True
        for k in ('x', 'node'):
            if hasattr(n, k) and isinstance(getattr(n, k), N) and walk(getattr(n, k)): return True
        return False
    return any(not isinstance(r, CharRule) and walk(r.body) for r in schema.rules)

def derive_twin(schema, kind):
    """auxiliary schema for the differential properties: the same expression tree, operands, alphabet and bound with exactly
    the feature in question removed. 'inl': every >Rule replaced by the parenthesised body (C13); 'nomemo': no @memoize (C05);
    'notrace': no tracer (C19). Twins are never judged against the reference semantics; `tenum diff` compares the real runs."""
    import copy
    t = copy.copy(schema)
    t.name = schema.name + '__' + kind
    t.aux_of, t.aux_kind = schema.name, kind
    t.kani = False
    t.twin_of = None
    t.props = ()
    if kind == 'inl':
        t.inline_includes = True
    elif kind == 'nomemo':
        t.rules = [copy.copy(r) for r in schema.rules]
        for r in t.rules:
            if not isinstance(r, CharRule): r.memo = False
    elif kind == 'notrace':
        t.tracer = False
    t.note = 'differential twin of %s (%s)' % (schema.name, {'inl': 'includes written out in place', 'nomemo': 'without @memoize', 'notrace': 'without a tracer'}[kind])
    return t

def ebnf_atom(n):
    t = ebnf_node(n)
    if isinstance(n, (Seq,)) and len(n.xs) > 1: return '(' + t + ')'
    return t

def table_count(schema, n):
    """number of tables the native enumeration visits up to input length n"""
    total = 0
    for k in range(n + 1):
        per_op = 1
        for p in range(k + 1): per_op *= (k - p + 2)
        total += (len(alphabet_bytes(schema)) ** k) * (per_op ** len(schema.ops)) * (2 ** ((k + 1) * schema.nchk))
    return total

def bound_for(schema, cap, extra=0):
    """largest input length whose table count fits under cap; the thorough tier may go one byte beyond the schema's own n"""
    n = min(schema.n + extra, 4)
    while n > 1 and table_count(schema, n) > cap: n -= 1
    return n

def ebnf(schema):
    global _INLINE_RULES
    if schema.raw_ebnf is not None: return schema.raw_ebnf
    _INLINE_RULES = {r.name: r for r in schema.rules} if schema.inline_includes else None
    try:
        return _ebnf(schema)
    finally:
        _INLINE_RULES = None

def _ebnf(schema):
    out = []
    for r in schema.rules:
        if isinstance(r, CharRule):
            d = '@char ' + ('@check(%s) ' % r.check[1] if r.check else '')
            out.append('%s\n%s = %s;' % (d.strip(), r.name, ' | '.join(ebnf_node(p) for p in r.parts)))
            continue
        d = []
        if r.export: d.append('@export')
        if not r.skip: d.append('@no_skip_ws')
        if r.memo: d.append('@memoize')
        if r.leftrec: d.append('@leftrec')
        if r.position is not None: d.append('@position')
        if r.string is not None: d.append('@string')
        for c in r.checks: d.append('@check(%s)' % c[1])
        d += r.extra
        out.append('%s\n%s = %s;' % (' '.join(d), r.name, ebnf_node(r.body, True)))
    for i, op in enumerate(OPS):
        if op in schema.ops:
            fn = 'crate::ops::' + op.lower() + ('_ctx' if schema.user_ctx else '')
            if op in schema.extern_str:
                out.append('@extern(%s_str)\n%s;' % (fn, op))
            else:
                out.append('@extern(%s -> u16)\n%s;' % (fn, op))
    if schema.custom_ws is not None:
        out.append("@no_skip_ws\nWhitespace = {'%s'};" % schema.custom_ws)
    return '\n'.join(out) + '\n'

# ------------------------------------------------------------------------------------------------ oracle
class Emit:
    def __init__(s, schema):
        s.schema = schema
        s.fns = []
        s.k = 0
        s.rules = {r.name: r for r in schema.rules}
    def fresh(s):
        s.k += 1
        return 'n%d' % s.k
    def fn(s, name, body):
        s.fns.append('    fn %s(cx: &mut Cx, p: usize) -> Option<usize> {\n%s\n    }' % (name, '\n'.join('        ' + l for l in body.split('\n'))))
        return name
    def skipped(s, skip, expr):
        # whitespace is skipped immediately before every literal, range, $, rule or field reference of a skipping rule
        return ('let p = cx.skip(p);\n' if skip else '') + expr
    def node(s, n, skip):
        name = s.fresh()
        if isinstance(n, Call):
            return s.fn(name, s.skipped(skip, 'cx.call(%d, p)' % OPS.index(n.op)))
        if isinstance(n, F):
            if isinstance(n.node, Call):
                body = s.skipped(skip, 'let e = cx.call(%d, p)?;\ncx.f[%d].push(cx.last);\nSome(e)' % (OPS.index(n.node.op), n.idx))
            elif isinstance(n.node, AnyChar):
                body = s.skipped(skip, 'let e = cx.anychar(p)?;\ncx.f[%d].push(1000 + cx.t.sym[p] as u16);\nSome(e)' % n.idx)
            elif isinstance(s.rules.get(n.node.rule), CharRule):
                body = s.skipped(skip, 'let e = r_%s(cx, p)?;\ncx.f[%d].push(1000 + cx.t.sym[p] as u16);\nSome(e)' % (n.node.rule, n.idx))
            else:
                # field holding a (struct/override/@string) rule of the schema: the rule's own fields carry the tags
                body = s.skipped(skip, 'r_%s(cx, p)' % n.node.rule)
            return s.fn(name, body)
        if isinstance(n, Seq):
            parts = [s.node(x, skip) for x in n.xs]
            body = '\n'.join('let p = %s(cx, p)?;' % f for f in parts) + '\nSome(p)'
            return s.fn(name, body)
        if isinstance(n, Grp):
            return s.node(n.x, skip)
        if isinstance(n, Alt):
            parts = [s.node(x, skip) for x in n.xs]
            body = 'let s0 = cx.snap();\n' + '\n'.join('if let Some(e) = %s(cx, p) { return Some(e); }\ncx.restore(&s0);' % f for f in parts) + '\nNone'
            return s.fn(name, body)
        if isinstance(n, Opt):
            f = s.node(n.x, skip)
            return s.fn(name, 'let s0 = cx.snap();\nmatch %s(cx, p) { Some(e) => Some(e), None => { cx.restore(&s0); Some(p) } }' % f)
        if isinstance(n, (Star, Plus)):
            f = s.node(n.x, skip)
            body = ('let mut p = p;\nlet mut iters = 0usize;\nloop {\n    let s0 = cx.snap();\n    match %s(cx, p) {\n'
                    '        Some(e) => { p = e; iters += 1; if iters > MAXN + 1 { return None; } }\n'
                    '        None => { cx.restore(&s0); break; }\n    }\n}\n' % f)
            if isinstance(n, Plus): body += 'if iters == 0 { return None; }\n'
            return s.fn(name, body + 'Some(p)')
        if isinstance(n, Not):
            f = s.node(n.x, skip)
            return s.fn(name, 'let sv = cx.enter_la();\nlet r = %s(cx, p);\ncx.leave_la(sv, false);\nmatch r { Some(_) => { cx.fail(p); None } None => Some(p) }' % f)
        if isinstance(n, And):
            f = s.node(n.x, skip)
            return s.fn(name, 'let sv = cx.enter_la();\nlet r = %s(cx, p);\ncx.leave_la(sv, r.is_none());\nmatch r { Some(_) => Some(p), None => None }' % f)
        if isinstance(n, Lit):
            b = 'b"%s"' % n.text.lower() if n.insensitive else 'b"%s"' % n.text
            return s.fn(name, s.skipped(skip, 'cx.%s(%s, p)' % ('lit_i' if n.insensitive else 'lit', b)))
        if isinstance(n, Rng):
            if ord(n.lo) < 128 and ord(n.hi) < 128:
                return s.fn(name, s.skipped(skip, "cx.range(b'%s', b'%s', p)" % (n.lo, n.hi)))
            return s.fn(name, s.skipped(skip, "cx.range_c('%s', '%s', p)" % (n.lo, n.hi)))
        if isinstance(n, AnyChar):
            return s.fn(name, s.skipped(skip, 'cx.anychar(p)'))
        if isinstance(n, Eoi):
            return s.fn(name, s.skipped(skip, 'cx.eoi(p)'))
        if isinstance(n, Ref):
            return s.fn(name, s.skipped(skip, 'r_%s(cx, p)' % n.rule))
        if isinstance(n, Inc):
            # >Rule behaves exactly like writing the rule's body in place: the INCLUDER's whitespace setting applies,
            # the included rule's directives have no effect
            return s.node(s.rules[n.rule].body, skip)
        raise Exception('oracle: ' + repr(n))
    def rule(s, r):
        if isinstance(r, CharRule):
            alts = []
            for p_ in r.parts:
                alts.append(s.node(p_, False))
            body = ''
            if r.check:
                body += ('match cx.byte(p) { None => { cx.fail(p); return None; } Some(b) => { if !cx.t.chk[%d][if b == b\'x\' { 0 } else { 1 }] { cx.fail(p); return None; } } }\n' % r.check[0])
            body += 'let la_save = (cx.maxfail, cx.la_max);\n'
            for a in alts:
                body += 'if let Some(e) = %s(cx, p) { cx.maxfail = la_save.0; cx.la_max = la_save.1; return Some(e); }\n' % a
            body += 'cx.maxfail = la_save.0; cx.la_max = la_save.1; cx.fail(p);\nNone'
            return s.fn('r_' + r.name, body)
        bodyfn = s.node(r.body, r.skip)
        post = ''
        if r.position is not None:
            post += 'cx.x[%d] = start as i32; cx.x[%d] = e as i32;\n' % r.position
        if r.string is not None:
            post += 'cx.x[%d] = start as i32; cx.x[%d] = (e - start) as i32;\n' % r.string
        for c in r.checks:
            key = 'tag(9, e - start, 0)' if c[2] == 'string' else 'key'
            post += 'if !cx.check(%d, %s, e) { return None; }\n' % (c[0], key)
        if r.leftrec:
            lr_checks = ''
            for c in r.checks:
                # the value a check of a left-recursive rule sees is identified by how many growth steps it contains
                lr_checks += 'let key = tag(9, (cx.f[%d].n - s0.f[%d].n) as usize, 0); if !cx.check(%d, key, e) { None } else { Some(e) }' % (c[3], c[3], c[0])
            round_expr = '%s(cx, p)' % bodyfn if not r.checks else ('match %s(cx, p) { Some(e) => { %s } None => None }' % (bodyfn, lr_checks))
            body = ('if cx.lr_active && cx.lr_pos == p {\n'
                    '    // the recursive reference: fails while the seed is computed, then stands for the previous result\n'
                    '    return match cx.lr_best { None => { cx.fail(p); None } Some((e, s)) => { cx.restore(&s); Some(e) } };\n'
                    '}\n'
                    'let s0 = cx.snap();\nlet saved = (cx.lr_active, cx.lr_pos, cx.lr_best);\n'
                    'cx.lr_active = true; cx.lr_pos = p; cx.lr_best = None;\n'
                    'let mut rounds = 0usize;\n'
                    'loop {\n    cx.restore(&s0);\n    rounds += 1; if rounds > MAXN + 3 { break; }\n'
                    '    match ROUND_EXPR {\n'
                    '        Some(e) => { let better = match cx.lr_best { None => true, Some((b, _)) => e > b }; if better { cx.lr_best = Some((e, cx.snap())); } else { break; } }\n'
                    '        None => break,\n    }\n}\n'
                    'let best = cx.lr_best;\ncx.lr_active = saved.0; cx.lr_pos = saved.1; cx.lr_best = saved.2;\n'
                    'match best { Some((e, s)) => { cx.restore(&s); Some(e) } None => { cx.restore(&s0); None } }').replace('ROUND_EXPR', round_expr)
            return s.fn('r_' + r.name, body)
        body = 'let start = p;\nlet nf = cx.f;\nlet e = %s(cx, p)?;\n' % bodyfn
        if any(c[2] != 'string' for c in r.checks):
            # the value a check sees is identified by the first tag this rule invocation added to any field
            body += ('let mut key: u16 = 0; let mut found = false;\n'
                     'for i in 0..NFLD { if !found && cx.f[i].n > nf[i].n { key = cx.f[i].v[nf[i].n as usize]; found = true; } }\n')
        body += post + 'Some(e)'
        return s.fn('r_' + r.name, body)
    def all(s):
        for r in s.schema.rules:
            s.rule(r)
        return '\n'.join(s.fns)

def alphabet_bytes(schema):
    out = []
    for c in schema.alphabet:
        for b in c.encode('utf-8'):
            if b not in out: out.append(b)
    return out

def rust_module(schema, gen_dir):
    """the Rust module for one schema (included by harness/src/schemas.rs)"""
    em = Emit(schema)
    oracle = em.all()
    used_ops = [OPS.index(o) for o in schema.ops]
    tracer = 'RecTracer' if schema.tracer else 'NoopTracer'
    if schema.user_ctx:
        ctx_ty, ctx_new, ctx_val = '&mut crate::ops::Ctx', 'let mut uc = crate::ops::Ctx { token: 4242 };', '&mut uc'
    else:
        ctx_ty, ctx_new, ctx_val = '()', '', '()'
    nonzero = ' && '.join(['true'] + ['(0..NPOS).all(|p| t.op[%d][p] != 1)' % OPS.index(o) for o in schema.nonzero])
    unused = ' && '.join(['true'] + ['t.op[%d] == [0; NPOS]' % i for i in range(4) if i not in used_ops] +
                         ['t.chk[%d] == [true; NPOS]' % i for i in range(2) if i >= schema.nchk])
    alphabet = ', '.join(str(b) for b in alphabet_bytes(schema))
    if schema.via_public:
        # through the public entry point generated for @export rules (the end offset is then not observable:
        # the schema's extract code sets o.end from what the value records)
        root_call = '<%s as peginator::PegParserAdvanced<%s>>::parse_advanced::<%s>(input, &ParseSettings::default(), %s)' % (schema.root, ctx_ty, tracer, ctx_val)
        ok_bind = '                let v = ok;'
    else:
        root_call = (schema.root_call or 'peginator_generated::parse_%s' % schema.root) + '(st, &mut g)'
        ok_bind = '                o.end = ok.state.cache_key();\n                let v = ok.result;'
    return '''
pub mod %(name)s {
    #![allow(unused, non_snake_case, non_camel_case_types, clippy::all)]
    use crate::ops::*;
    use peginator::{ParseState, ParseSettings, ParseGlobal, NoopTracer, ParseErrorSpecifics};
    include!(concat!(env!("SCHEMA_GEN_DIR"), "/%(name)s.rs"));

    pub const NAME: &str = "%(name)s";
    pub const N: usize = %(n)d;
    pub const ALPHABET: &[u8] = &[%(alphabet)s];
    pub const OPS_USED: &[usize] = &%(used_ops)s;
    pub const NCHK_USED: usize = %(nchk)d;
    pub const CMP_ERR: bool = %(cmp_err)s;
    pub const CMP_FIELDS: bool = %(cmp_fields)s;
    pub const ALLOW_SENTINEL: bool = %(allow_sentinel)s;

%(support)s

    /// assumptions on the operand tables (the property's own premises: e.g. closure bodies consume)
    pub fn valid(t: &Tables) -> bool {
        t.well_formed() && t.n <= N && (%(nonzero)s) && (%(unused)s)
            && (0..t.n).all(|i| ALPHABET.contains(&t.sym[i]))
    }

    /// the REAL generated parser, run on the abstract operands
    pub fn real(t: &Tables) -> Obs {
        install(t);
        let input = t.input();
        %(ctx_new)s
        let st = ParseState::new(input, &ParseSettings::default());
        let mut g = ParseGlobal::<%(tracer)s, peginator_generated::ParseCache, %(ctx_ty)s>::new(Default::default(), %(ctx_val)s);
        let mut o = Obs::new();
        match %(root_call)s {
            Ok(ok) => {
                o.ok = true;
%(ok_bind)s
%(extract)s
            }
            Err(e) => {
                o.err = e.position;
                o.sentinel = matches!(e.specifics, ParseErrorSpecifics::LeftRecursionSentinel);
            }
        }
        o
    }

%(real_str)s
    // ---- reference semantics, generated from the schema's expression tree ----
%(oracle)s

    pub fn oracle(t: &Tables) -> Obs {
        let mut cx = Cx::new(t);
        %(custom_ws)s
        let r = r_%(root)s(&mut cx, 0);
        cx.finish(r)
    }

    /// schema-specific post-conditions on the real run (counters, tracer, context), after `real(t)`
    pub fn post(t: &Tables, real: &Obs, oracle: &Obs) -> Result<(), &'static str> {
%(post)s
        Ok(())
    }
}
''' % dict(name=schema.name, n=min(schema.n + 1, 4), alphabet=alphabet, used_ops=str(used_ops), nchk=schema.nchk,
           cmp_err='true' if schema.cmp_err else 'false', allow_sentinel='true' if schema.allow_sentinel else 'false', cmp_fields='true' if schema.cmp_fields else 'false',
           support=schema.support, nonzero=nonzero, unused=unused, ctx_new=ctx_new, tracer=tracer, ctx_ty=ctx_ty,
           ctx_val=ctx_val, root=schema.root, extract=schema.extract, oracle=oracle, root_call=root_call, ok_bind=ok_bind,
           custom_ws=('cx.custom_ws = Some(b\'%s\');' % schema.custom_ws) if schema.custom_ws else '',
           post=schema.post,
           real_str=('''    /// the REAL generated parser on an arbitrary text (deep-input family; the schema has no abstract operands)
    pub fn real_str(input: &str) -> Obs {
        install(&Tables::zero());
        let st = ParseState::new(input, &ParseSettings::default());
        let mut g = ParseGlobal::<NoopTracer, peginator_generated::ParseCache, ()>::new(Default::default(), ());
        let mut o = Obs::new();
        match peginator_generated::parse_%s(st, &mut g) {
            Ok(ok) => { o.ok = true; o.end = ok.state.cache_key(); }
            Err(e) => { o.err = e.position; }
        }
        o
    }
''' % schema.root) if schema.deep else '')

# ------------------------------------------------------------------------------------------------ extraction helpers
def one(i, expr):   return '                o.f[%d].push(%s);' % (i, expr)
def opt(i, expr):   return '                if let Some(t) = &%s { o.f[%d].push(*t); }' % (expr, i)
def optbox(i, expr): return '                if let Some(t) = &%s { o.f[%d].push(**t); }' % (expr, i)
def vec(i, expr):   return '                for t in %s.iter() { o.f[%d].push(*t); }' % (expr, i)
def ty(expr, t):    return '                let _: &%s = &%s;' % (t, expr)
def J(*lines):      return '\n'.join(lines)
