//! native side of layer T:
//!   tenum enumerate <schema>          every table within the schema's bounds; prints T-PASS / T-FAIL
//!   tenum replay <schema> k=v ...     one recorded table
use schema_harness::*;
use schema_harness::ops::*;

include!(concat!(env!("SCHEMA_GEN_DIR"), "/dispatch.rs"));

fn main() {
    std::panic::set_hook(Box::new(|_| {}));
    let args: Vec<String> = std::env::args().collect();
    match args.get(1).map(|s| s.as_str()) {
        Some("list") => { for n in NAMES { println!("{n}"); } }
        Some("enumerate") => {
            let name = &args[2];
            let (nmax, alphabet, ops, nchk) = bounds(name).expect("unknown schema");
            let nmax = args.get(3).and_then(|s| s.parse().ok()).map(|x: usize| x.min(nmax)).unwrap_or(nmax);
            let mut od = Odometer::new(nmax, alphabet, ops, nchk);
            let (mut total, mut valid, mut accepted, mut nontrivial) = (0u64, 0u64, 0u64, 0u64);
            let mut seen_ok_end = [false; NPOS];
            // first disagreement PER PROPERTY LABEL is kept; the enumeration always runs to the end
            let mut fails: Vec<(&'static str, String)> = vec![];
            while od.next() {
                total += 1;
                let t = od.t;
                if !is_valid(name, &t) { continue; }
                valid += 1;
                if t.n >= 1 { nontrivial += 1; }
                let r = std::panic::catch_unwind(|| run(name, &t));
                match r {
                    Ok((Ok(()), ok, end)) => { if ok { accepted += 1; seen_ok_end[end.min(NPOS - 1)] = true; } }
                    Ok((Err((prop, what)), _, _)) => {
                        if !fails.iter().any(|(p, _)| *p == prop) {
                            fails.push((prop, format!("T-FAIL {name} prop={prop} what={what:?} after={valid} tables={} kv={}", describe(&t), tables_kv(&t))));
                        }
                    }
                    Err(_) => {
                        if !fails.iter().any(|(p, _)| *p == "C04") {
                            fails.push(("C04", format!("T-FAIL {name} prop=C04 what=\"generated parser panicked\" after={valid} tables={} kv={}", describe(&t), tables_kv(&t))));
                        }
                    }
                }
            }
            for (_, l) in &fails { println!("{l}"); }
            let ends = seen_ok_end.iter().filter(|b| **b).count();
            println!("T-{} {name} n<={nmax} tables={total} valid={valid} accepted={accepted} rejected={} distinct_end_offsets={ends} nontrivial={nontrivial}", if fails.is_empty() { "PASS" } else { "DONE" }, valid - accepted);
            if !fails.is_empty() { std::process::exit(1); }
        }
        Some("enumerate-trace") => {
            // used only after `enumerate` died: prints every table BEFORE running it, so the last line names the culprit
            let name = &args[2];
            let (nmax, alphabet, ops, nchk) = bounds(name).expect("unknown schema");
            let nmax = args.get(3).and_then(|s| s.parse().ok()).map(|x: usize| x.min(nmax)).unwrap_or(nmax);
            let mut od = Odometer::new(nmax, alphabet, ops, nchk);
            while od.next() {
                let t = od.t;
                if !is_valid(name, &t) { continue; }
                println!("T-RUN {} kv={}", describe(&t), tables_kv(&t));
                let _ = std::panic::catch_unwind(|| run(name, &t));
            }
            println!("T-TRACE-DONE");
        }
        Some("replay") => {
            let name = &args[2];
            let t = tables_from_kv(&args[3..]);
            if !is_valid(name, &t) { println!("T-REPLAY-INVALID {name}"); std::process::exit(2); }
            match std::panic::catch_unwind(|| run(name, &t)) {
                Ok((Ok(()), _, _)) => println!("T-REPLAY-PASS {name} tables={}", describe(&t)),
                Ok((Err((prop, what)), _, _)) => { println!("T-REPLAY-FAIL {name} prop={prop} what={what:?} tables={}", describe(&t)); std::process::exit(1); }
                Err(_) => { println!("T-REPLAY-FAIL {name} prop=C04 what=\"generated parser panicked\" tables={}", describe(&t)); std::process::exit(1); }
            }
        }
        _ => { eprintln!("usage: tenum list | enumerate <schema> [n] | replay <schema> k=v.."); std::process::exit(2); }
    }
}
