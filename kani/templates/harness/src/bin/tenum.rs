//! native side of layer T:
//!   tenum enumerate <schema>          every table within the schema's bounds; prints T-PASS / T-FAIL
//!   tenum replay <schema> k=v ...     one recorded table
//!   tenum diff <schema> <twin> <n> <full|noerr>        every table: the REAL runs of a schema and of its differential twin must agree
//!   tenum replay-diff <schema> <twin> <full|noerr> k=v ...
use schema_harness::*;
use schema_harness::ops::*;

include!(concat!(env!("SCHEMA_GEN_DIR"), "/dispatch.rs"));

/// first observable difference between two real runs (None: they agree). `full`: also the reported error position / sentinel.
fn obs_diff(a: &Obs, b: &Obs, full: bool) -> Option<&'static str> {
    if a.ok != b.ok { return Some(if a.ok { "accepts where the twin rejects" } else { "rejects where the twin accepts" }); }
    if a.ok {
        if a.end != b.end { return Some("consumes a different number of bytes than the twin"); }
        let mut i = 0;
        while i < NFLD { if a.f[i] != b.f[i] { return Some("returns a different tree than the twin"); } i += 1; }
        if a.x != b.x { return Some("records different positions / strings than the twin"); }
    } else if full {
        if a.err != b.err { return Some("reports a different error position than the twin"); }
        if a.sentinel != b.sentinel { return Some("reports a different error detail (left-recursion sentinel) than the twin"); }
    }
    None
}
fn run_diff(name: &str, twin: &str, t: &Tables, full: bool) -> Result<Option<&'static str>, &'static str> {
    let a = std::panic::catch_unwind(|| real_obs(name, t));
    let b = std::panic::catch_unwind(|| real_obs(twin, t));
    match (a, b) {
        (Ok(a), Ok(b)) => Ok(obs_diff(&a, &b, full)),
        (Err(_), Ok(_)) => Ok(Some("panics where the twin does not")),
        (Ok(_), Err(_)) => Ok(Some("does not panic where the twin panics")),
        (Err(_), Err(_)) => Ok(None),
    }
}

fn main() {
    std::panic::set_hook(Box::new(|_| {}));
    let args: Vec<String> = std::env::args().collect();
    match args.get(1).map(|s| s.as_str()) {
        Some("list") => { for n in NAMES { println!("{n}"); } }
        Some("enumerate") => {
            let name = &args[2];
            let (nmax, alphabet, ops, nchk) = bounds(name).expect("unknown schema");
            let nmax = args.get(3).and_then(|s| s.parse().ok()).map(|x: usize| x.min(nmax)).unwrap_or(nmax);
            let mut od = Odometer::new(nmax, alphabet, ops, nchk);
            let (mut total, mut valid, mut accepted, mut nontrivial) = (0u64, 0u64, 0u64, 0u64);
            let mut seen_ok_end = [false; NPOS];
            // first disagreement PER PROPERTY LABEL is kept; the enumeration always runs to the end
            let mut fails: Vec<(&'static str, String)> = vec![];
            while od.next() {
                total += 1;
                let t = od.t;
                if !is_valid(name, &t) { continue; }
                valid += 1;
                if t.n >= 1 { nontrivial += 1; }
                let r = std::panic::catch_unwind(|| run_all(name, &t));
                match r {
                    Ok((all, ok, end)) => {
                        if all.is_empty() { if ok { accepted += 1; seen_ok_end[end.min(NPOS - 1)] = true; } }
                        // every label that disagrees on this table; the first table per label is kept
                        for (prop, what) in all {
                            if !fails.iter().any(|(p, _)| *p == prop) {
                                fails.push((prop, format!("T-FAIL {name} prop={prop} what={what:?} after={valid} tables={} kv={}", describe(&t), tables_kv(&t))));
                            }
                        }
                    }
                    Err(_) => {
                        if !fails.iter().any(|(p, _)| *p == "C04") {
                            fails.push(("C04", format!("T-FAIL {name} prop=C04 what=\"generated parser panicked\" after={valid} tables={} kv={}", describe(&t), tables_kv(&t))));
                        }
                    }
                }
            }
            for (_, l) in &fails { println!("{l}"); }
            let ends = seen_ok_end.iter().filter(|b| **b).count();
            println!("T-{} {name} n<={nmax} tables={total} valid={valid} accepted={accepted} rejected={} distinct_end_offsets={ends} nontrivial={nontrivial}", if fails.is_empty() { "PASS" } else { "DONE" }, valid - accepted);
            if !fails.is_empty() { std::process::exit(1); }
        }
        Some("enumerate-trace") => {
            // used only after `enumerate` died: prints every table BEFORE running it, so the last line names the culprit
            let name = &args[2];
            let (nmax, alphabet, ops, nchk) = bounds(name).expect("unknown schema");
            let nmax = args.get(3).and_then(|s| s.parse().ok()).map(|x: usize| x.min(nmax)).unwrap_or(nmax);
            let mut od = Odometer::new(nmax, alphabet, ops, nchk);
            while od.next() {
                let t = od.t;
                if !is_valid(name, &t) { continue; }
                println!("T-RUN {} kv={}", describe(&t), tables_kv(&t));
                let _ = std::panic::catch_unwind(|| run(name, &t));
            }
            println!("T-TRACE-DONE");
        }
        Some("replay") => {
            let name = &args[2];
            let t = tables_from_kv(&args[3..]);
            if !is_valid(name, &t) { println!("T-REPLAY-INVALID {name}"); std::process::exit(2); }
            match std::panic::catch_unwind(|| run(name, &t)) {
                Ok((Ok(()), _, _)) => println!("T-REPLAY-PASS {name} tables={}", describe(&t)),
                Ok((Err((prop, what)), _, _)) => { println!("T-REPLAY-FAIL {name} prop={prop} what={what:?} tables={}", describe(&t)); std::process::exit(1); }
                Err(_) => { println!("T-REPLAY-FAIL {name} prop=C04 what=\"generated parser panicked\" tables={}", describe(&t)); std::process::exit(1); }
            }
        }
        Some("diff") => {
            let (name, twin) = (&args[2], &args[3]);
            let (nmax, alphabet, ops, nchk) = bounds(name).expect("unknown schema");
            let nmax = args.get(4).and_then(|s| s.parse().ok()).map(|x: usize| x.min(nmax)).unwrap_or(nmax);
            let full = args.get(5).map(|s| s == "full").unwrap_or(true);
            let mut od = Odometer::new(nmax, alphabet, ops, nchk);
            let (mut total, mut valid, mut nontrivial) = (0u64, 0u64, 0u64);
            let mut first: Option<String> = None;
            let mut ndiff = 0u64;
            while od.next() {
                total += 1;
                let t = od.t;
                if !is_valid(name, &t) || !is_valid(twin, &t) { continue; }
                valid += 1;
                if t.n >= 1 { nontrivial += 1; }
                if let Ok(Some(what)) = run_diff(name, twin, &t, full) {
                    ndiff += 1;
                    if first.is_none() { first = Some(format!("T-DIFF {name} twin={twin} what={what:?} after={valid} tables={} kv={}", describe(&t), tables_kv(&t))); }
                }
            }
            if let Some(l) = &first { println!("{l}"); }
            println!("T-DIFF-{} {name} twin={twin} n<={nmax} tables={total} valid={valid} nontrivial={nontrivial} differing={ndiff}", if first.is_none() { "PASS" } else { "DONE" });
            if first.is_some() { std::process::exit(1); }
        }
        Some("replay-diff") => {
            let (name, twin) = (&args[2], &args[3]);
            let full = args[4] == "full";
            let t = tables_from_kv(&args[5..]);
            if !is_valid(name, &t) || !is_valid(twin, &t) { println!("T-REPLAY-INVALID {name}"); std::process::exit(2); }
            match run_diff(name, twin, &t, full) {
                Ok(Some(what)) => { println!("T-REPLAY-FAIL {name} prop=DIFF what={what:?} tables={}", describe(&t)); std::process::exit(1); }
                _ => println!("T-REPLAY-PASS {name} tables={}", describe(&t)),
            }
        }
        Some("deep") => {
            // tenum deep <schema> <twin> <open> <mid> <close> [k ...]: inputs open^k mid close^k; both real parsers must accept the whole
            // text and agree (deep nesting is far outside the enumeration bound; a fixed family, not exhaustive)
            let (name, twin) = (args[2].clone(), args[3].clone());
            let (open, mid, close) = (args[4].clone(), args[5].clone(), args[6].clone());
            let ks: Vec<usize> = if args.len() > 7 { args[7..].iter().map(|s| s.parse().unwrap()).collect() } else { vec![1, 2, 3, 10, 50, 100, 127, 128, 129, 200, 255, 256, 257, 300, 500, 1000, 2000] };
            let h = std::thread::Builder::new().stack_size(1 << 30).spawn(move || {
                let mut bad = false;
                for k in ks {
                    let input = format!("{}{}{}", open.repeat(k), mid, close.repeat(k));
                    let a = real_str_obs(&name, &input);
                    let b = real_str_obs(&twin, &input);
                    let whole = |o: &Obs| o.ok && o.end == input.len();
                    if whole(&a) != whole(&b) || a.ok != b.ok || (a.ok && a.end != b.end) {
                        bad = true;
                        println!("T-DEEP-DIFF {name} twin={twin} k={k} schema: ok={} end={} twin: ok={} end={}", a.ok, a.end, b.ok, b.end);
                    } else if !whole(&a) {
                        bad = true;
                        println!("T-DEEP-REJECT {name} twin={twin} k={k} both parsers reject the nested text (ok={} end={} of {})", a.ok, a.end, input.len());
                    }
                }
                bad
            }).unwrap();
            match h.join() {
                Ok(false) => println!("T-DEEP-PASS {} twin={}", args[2], args[3]),
                Ok(true) => { println!("T-DEEP-DONE {} twin={}", args[2], args[3]); std::process::exit(1); }
                Err(_) => { println!("T-DEEP-DIFF {} twin={} k=? one of the parsers panicked", args[2], args[3]); std::process::exit(1); }
            }
        }
        _ => { eprintln!("usage: tenum list | enumerate <schema> [n] | replay <schema> k=v.."); std::process::exit(2); }
    }
}
