//! Abstract operands for the schema grammars (DESIGN §5.1): every `@extern` rule A..D of a schema looks its
//! outcome up in a table indexed by the absolute input position, every `@check` function looks its verdict up
//! in a table indexed by the position of the value it is shown. A harness ranges the tables over every total
//! function, so one schema stands for every grammar that plugs arbitrary sub-parsers into that template shape.
#![allow(static_mut_refs)]

pub const MAXN: usize = 4; // input length bound (bytes)
pub const NPOS: usize = MAXN + 1;
pub const NOPS: usize = 4;
pub const NCHK: usize = 2;

#[derive(Clone, Copy, Debug, PartialEq, Eq)]
pub struct Tables {
    pub n: usize,                  // input length
    pub sym: [u8; MAXN],           // input bytes (ASCII symbols chosen by the schema's alphabet)
    pub op: [[u8; NPOS]; NOPS],    // 0 = fail, k+1 = match consuming k bytes
    pub chk: [[bool; NPOS]; NCHK], // verdict of check i for a value whose first match started at position p
}

impl Tables {
    pub const fn zero() -> Tables {
        Tables { n: 0, sym: [b'x'; MAXN], op: [[0; NPOS]; NOPS], chk: [[true; NPOS]; NCHK] }
    }
    pub fn input(&self) -> &str {
        core::str::from_utf8(&self.sym[..self.n]).unwrap_or("")
    }
    /// structural validity: lengths within the remaining input
    pub fn well_formed(&self) -> bool {
        if self.n > MAXN { return false; }
        let mut o = 0;
        while o < NOPS {
            let mut p = 0;
            while p < NPOS {
                let v = self.op[o][p] as usize;
                if p > self.n { if v != 0 { return false; } }
                else if v > self.n - p + 1 { return false; }
                p += 1;
            }
            o += 1;
        }
        // the input is valid UTF-8 and operands only ever report lengths that end on a character boundary
        // (the property's premise for extern rules); positions inside a character are never legitimate call sites
        let s = match core::str::from_utf8(&self.sym[..self.n]) { Ok(s) => s, Err(_) => return false };
        let mut o = 0;
        while o < NOPS {
            let mut p = 0;
            while p <= self.n {
                let v = self.op[o][p] as usize;
                if v != 0 && (!s.is_char_boundary(p) || !s.is_char_boundary(p + v - 1)) { return false; }
                p += 1;
            }
            o += 1;
        }
        true
    }
}

pub struct Globals {
    pub t: Tables,
    pub calls: [[u8; NPOS]; NOPS],   // how often operand o was invoked at position p
    pub chk_calls: [[u8; NPOS]; NCHK],
    pub bad_rest: bool,              // an operand was handed something that is not a suffix of the input
    pub trace_depth: i32,
    pub trace_min: i32,
    pub trace_starts: u32,
    pub trace_results: u32,
    pub ctx_seen: u32,
    pub aux: [i32; 4],               // schema-specific scratch numbers written by the extraction code, read by `post`
}

pub static mut G: Globals = Globals {
    t: Tables::zero(), calls: [[0; NPOS]; NOPS], chk_calls: [[0; NPOS]; NCHK], bad_rest: false,
    trace_depth: 0, trace_min: 0, trace_starts: 0, trace_results: 0, ctx_seen: 0, aux: [0; 4],
};

pub fn install(t: &Tables) {
    unsafe {
        G.t = *t;
        G.calls = [[0; NPOS]; NOPS];
        G.chk_calls = [[0; NPOS]; NCHK];
        G.bad_rest = false;
        G.trace_depth = 0; G.trace_min = 0; G.trace_starts = 0; G.trace_results = 0; G.ctx_seen = 0; G.aux = [0; 4];
    }
}

pub fn tag(op: usize, pos: usize, len: usize) -> u16 { (op * 100 + pos * 10 + len) as u16 }
pub fn tag_op(t: u16) -> usize { (t / 100) as usize }
pub fn tag_pos(t: u16) -> usize { ((t / 10) % 10) as usize }
pub fn tag_len(t: u16) -> usize { (t % 10) as usize }

fn operand(op: usize, rest: &str) -> Result<(u16, usize), &'static str> {
    unsafe {
        if rest.len() > G.t.n { G.bad_rest = true; return Err("bad rest"); }
        let pos = G.t.n - rest.len();
        if rest.as_bytes() != &G.t.sym[pos..G.t.n] { G.bad_rest = true; }
        if G.calls[op][pos] < 250 { G.calls[op][pos] += 1; }
        match G.t.op[op][pos] {
            0 => Err("operand"),
            k => Ok((tag(op, pos, k as usize - 1), k as usize - 1)),
        }
    }
}

pub fn a(rest: &str) -> Result<(u16, usize), &'static str> { operand(0, rest) }
pub fn b(rest: &str) -> Result<(u16, usize), &'static str> { operand(1, rest) }
pub fn c(rest: &str) -> Result<(u16, usize), &'static str> { operand(2, rest) }
pub fn d(rest: &str) -> Result<(u16, usize), &'static str> { operand(3, rest) }

/// extern rule without a result type: the rule's type is String; the tag travels as its decimal text
pub fn a_str(rest: &str) -> Result<(String, usize), &'static str> { operand(0, rest).map(|(t, n)| (t.to_string(), n)) }
/// @check on a @string rule sees only the text: verdict keyed by its length
pub fn chk_str0(v: &String) -> bool { unsafe { G.t.chk[0][v.len().min(NPOS - 1)] } }

/// user context variants (C14: "when configured, the user context")
pub struct Ctx { pub token: u32 }
pub fn a_ctx(rest: &str, ctx: &mut Ctx) -> Result<(u16, usize), &'static str> { unsafe { if ctx.token == 4242 { G.ctx_seen += 1; } } operand(0, rest) }
pub fn b_ctx(rest: &str, ctx: &mut Ctx) -> Result<(u16, usize), &'static str> { unsafe { if ctx.token == 4242 { G.ctx_seen += 1; } } operand(1, rest) }
pub fn c_ctx(rest: &str, ctx: &mut Ctx) -> Result<(u16, usize), &'static str> { unsafe { if ctx.token == 4242 { G.ctx_seen += 1; } } operand(2, rest) }
pub fn d_ctx(rest: &str, ctx: &mut Ctx) -> Result<(u16, usize), &'static str> { unsafe { if ctx.token == 4242 { G.ctx_seen += 1; } } operand(3, rest) }

/// verdict of check i for a value identified by `key` (a tag: the first match inside the value)
pub fn check(i: usize, key: u16) -> bool {
    unsafe {
        let p = tag_pos(key).min(NPOS - 1);
        if G.chk_calls[i][p] < 250 { G.chk_calls[i][p] += 1; }
        G.t.chk[i][p]
    }
}
pub fn never<T>(_v: &T) -> bool { false }
pub fn chk0(v: &u16) -> bool { check(0, *v) }
pub fn chk1(v: &u16) -> bool { check(1, *v) }
/// @char rule checks see the next character: verdict keyed by the character ('x' -> table entry 0, else entry 1)
pub fn chk_char0(c: char) -> bool { unsafe { G.chk_calls[0][0] = G.chk_calls[0][0].saturating_add(1); G.t.chk[0][if c == 'x' { 0 } else { 1 }] } }

/// recording tracer (C19)
#[derive(Clone, Copy)]
pub struct RecTracer;
impl peginator::ParseTracer for RecTracer {
    fn print_trace_start(&mut self, _state: &peginator::ParseState, _name: &str) {
        unsafe { G.trace_depth += 1; G.trace_starts += 1; }
    }
    fn print_trace_result<T>(&mut self, _result: &peginator::ParseResult<T>) {
        unsafe { G.trace_depth -= 1; G.trace_results += 1; if G.trace_depth < G.trace_min { G.trace_min = G.trace_depth; } }
    }
    fn new() -> Self { RecTracer }
}

// ------------------------------------------------------------------------------------------------
// observations
// ------------------------------------------------------------------------------------------------
pub const NFLD: usize = 4;
pub const FLDCAP: usize = 6;

#[derive(Clone, Copy, Debug, PartialEq, Eq)]
pub struct Fld { pub n: u8, pub v: [u16; FLDCAP] }
impl Fld {
    pub const fn empty() -> Fld { Fld { n: 0, v: [0; FLDCAP] } }
    pub fn push(&mut self, t: u16) { if (self.n as usize) < FLDCAP { self.v[self.n as usize] = t; } self.n = self.n.saturating_add(1); }
}

#[derive(Clone, Copy, Debug, PartialEq, Eq)]
pub struct Obs {
    pub ok: bool,
    pub end: usize,          // offset reached (Ok)
    pub err: usize,          // reported error position (Err)
    pub f: [Fld; NFLD],      // field contents as tag lists, in order
    pub x: [i32; 6],         // schema-specific numbers (positions, counters, ...)
    pub sentinel: bool,      // the reported error detail is LeftRecursionSentinel
    pub failmask: u8,        // reference side only: bit p = some match attempt failed at offset p during the parse (anywhere, lookaheads included)
}
impl Obs {
    pub const fn new() -> Obs { Obs { ok: false, end: 0, err: 0, f: [Fld::empty(); NFLD], x: [0; 6], sentinel: false, failmask: 0 } }
}

// ------------------------------------------------------------------------------------------------
// reference semantics (oracle side): a tiny PEG evaluator context. The per-schema oracle functions are
// generated from the schema's expression tree by schemas.py (one Rust fn per node, no runtime recursion
// except the closure loops).
// ------------------------------------------------------------------------------------------------
#[derive(Clone, Copy)]
pub struct Snap { pub f: [Fld; NFLD], pub x: [i32; 6] }

pub struct Cx {
    pub t: Tables,
    pub f: [Fld; NFLD],
    pub x: [i32; 6],
    pub maxfail: Option<usize>,   // furthest failed attempt outside lookaheads
    pub la: u32,                  // lookahead nesting depth
    pub la_max: Option<usize>,    // furthest failed attempt inside the current outermost lookahead
    pub last: u16,                // tag of the last successful operand call
    pub custom_ws: Option<u8>,    // Some(byte): the grammar defines Whitespace = that single byte, repeated
    pub lr_pos: usize,            // @leftrec: position of the rule under growth
    pub lr_active: bool,
    pub lr_best: Option<(usize, Snap)>,
    pub failmask: u8,
}

impl Cx {
    pub fn new(t: &Tables) -> Cx {
        Cx { t: *t, f: [Fld::empty(); NFLD], x: [0; 6], maxfail: None, la: 0, la_max: None, last: 0, custom_ws: None,
             lr_pos: 0, lr_active: false, lr_best: None, failmask: 0 }
    }
    pub fn snap(&self) -> Snap { Snap { f: self.f, x: self.x } }
    pub fn restore(&mut self, s: &Snap) { self.f = s.f; self.x = s.x; }
    pub fn fail(&mut self, p: usize) {
        if p < 8 { self.failmask |= 1u8 << p; }
        if self.la == 0 { self.maxfail = Some(match self.maxfail { Some(m) if m > p => m, _ => p }); }
        else { self.la_max = Some(match self.la_max { Some(m) if m > p => m, _ => p }); }
    }
    /// abstract operand
    pub fn call(&mut self, op: usize, p: usize) -> Option<usize> {
        match self.t.op[op][p] {
            0 => { self.fail(p); None }
            k => { self.last = tag(op, p, k as usize - 1); Some(p + k as usize - 1) }
        }
    }
    pub fn byte(&self, p: usize) -> Option<u8> { if p < self.t.n { Some(self.t.sym[p]) } else { None } }
    /// whitespace skipping of a skipping rule (built-in set, or the grammar's own Whitespace rule)
    pub fn skip(&mut self, mut p: usize) -> usize {
        loop {
            match (self.byte(p), self.custom_ws) {
                (Some(b), None) if b == b' ' || b == b'\t' || b == b'\n' || b == 0x0C || b == b'\r' => p += 1,
                (Some(b), Some(w)) if b == w => p += 1,
                _ => return p,
            }
        }
    }
    pub fn lit(&mut self, s: &[u8], p: usize) -> Option<usize> {
        if p + s.len() <= self.t.n && &self.t.sym[p..p + s.len()] == s { Some(p + s.len()) } else { self.fail(p); None }
    }
    pub fn lit_i(&mut self, s: &[u8], p: usize) -> Option<usize> {
        if p + s.len() <= self.t.n && self.t.sym[p..p + s.len()].iter().zip(s).all(|(x, y)| x.to_ascii_lowercase() == *y) { Some(p + s.len()) } else { self.fail(p); None }
    }
    pub fn range(&mut self, lo: u8, hi: u8, p: usize) -> Option<usize> {
        match self.byte(p) { Some(b) if lo <= b && b <= hi => Some(p + 1), _ => { self.fail(p); None } }
    }
    /// character range over scalar values (multi-byte characters included)
    pub fn range_c(&mut self, lo: char, hi: char, p: usize) -> Option<usize> {
        let c = if p <= self.t.n { core::str::from_utf8(&self.t.sym[p..self.t.n]).ok().and_then(|s| s.chars().next()) } else { None };
        match c { Some(c) if lo <= c && c <= hi => Some(p + c.len_utf8()), _ => { self.fail(p); None } }
    }
    pub fn anychar(&mut self, p: usize) -> Option<usize> { if p < self.t.n { Some(p + 1) } else { self.fail(p); None } }
    pub fn eoi(&mut self, p: usize) -> Option<usize> { if p == self.t.n { Some(p) } else { self.fail(p); None } }
    pub fn check(&mut self, i: usize, key: u16, at: usize) -> bool {
        let ok = self.t.chk[i][tag_pos(key).min(NPOS - 1)];
        if !ok { self.fail(at); }
        ok
    }
    pub fn enter_la(&mut self) -> (Option<usize>, Snap) { let s = (self.la_max, self.snap()); self.la += 1; if self.la == 1 { self.la_max = None; } s }
    /// leaving a lookahead: `propagate` = the lookahead as a whole failed because its body failed (positive
    /// lookahead): then the failures inside count
    pub fn leave_la(&mut self, saved: (Option<usize>, Snap), propagate: bool) {
        self.la -= 1;
        let inner = self.la_max;
        self.restore(&saved.1);
        if self.la == 0 {
            self.la_max = None;
            if propagate { if let Some(m) = inner { self.fail(m); } }
        } else {
            self.la_max = if propagate { match (saved.0, inner) { (Some(a), Some(b)) => Some(a.max(b)), (a, b) => a.or(b) } } else { saved.0 };
        }
    }
    pub fn finish(&self, r: Option<usize>) -> Obs {
        let mut o = Obs::new();
        match r {
            Some(e) => { o.ok = true; o.end = e; o.f = self.f; o.x = self.x; }
            None => { o.ok = false; o.err = self.maxfail.unwrap_or(0); }
        }
        o.failmask = self.failmask;
        o
    }
}

pub fn count(op: usize, p: usize) -> u8 { unsafe { G.calls[op][p] } }
pub fn max_count(op: usize) -> u8 { let mut m = 0; for p in 0..NPOS { m = m.max(count(op, p)); } m }
pub fn total_count(op: usize) -> u32 { let mut m = 0u32; for p in 0..NPOS { m += count(op, p) as u32; } m }
pub fn bad_rest() -> bool { unsafe { G.bad_rest } }
pub fn trace_balanced() -> bool { unsafe { G.trace_depth == 0 && G.trace_min >= 0 && G.trace_starts == G.trace_results } }
pub fn trace_events() -> u32 { unsafe { G.trace_starts } }
