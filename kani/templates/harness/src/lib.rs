//! Layer T harness crate: generated parsers for the schema grammars (include!d unmodified from the output of the
//! tree's own generator) + abstract operands + reference semantics + comparison.
pub mod ops;
pub mod schemas {
    include!(concat!(env!("SCHEMA_GEN_DIR"), "/schemas.rs"));
}
use ops::*;

/// (property id, what) of the first disagreement
pub type Verdict = Result<(), (&'static str, &'static str)>;

/// every disagreement of one run, one entry per label (what cannot be compared after an earlier disagreement is not:
/// nothing after an unsafe offset or a different verdict; tree, spans and consumed bytes are compared independently)
pub fn judge_all(input: &str, real: &Obs, bad_rest: bool, oracle: &Obs, cmp_err: bool, cmp_fields: bool, allow_sentinel: bool, post: Result<(), &'static str>) -> Vec<(&'static str, &'static str)> {
    let mut out: Vec<(&'static str, &'static str)> = Vec::new();
    // C04: every offset the parser exposes lies on a character boundary inside the input
    if real.ok { if real.end > input.len() || !input.is_char_boundary(real.end) { out.push(("C04", "the end offset is not a character boundary inside the input")); return out; } }
    else if real.err > input.len() || !input.is_char_boundary(real.err) { out.push(("C04", "the reported error position is not a character boundary inside the input")); return out; }
    if bad_rest { out.push(("C14", "an extern function was not handed the remaining input at the current offset")); return out; }
    if real.ok != oracle.ok {
        out.push(("C01", if real.ok { "generated parser accepts where the PEG reading of the grammar rejects" } else { "generated parser rejects where the PEG reading of the grammar accepts" }));
        return out;
    }
    if real.ok {
        if real.end != oracle.end { out.push(("C01", "rule consumed a different number of bytes than PEG semantics determines")); }
        if cmp_fields {
            let mut i = 0;
            while i < NFLD { if real.f[i] != oracle.f[i] { out.push(("C02", "a field does not hold exactly the matches on the successful path, in order")); break; } i += 1; }
        }
        if real.x != oracle.x { out.push(("C09", "a recorded position/@string span is not the span the rule consumed")); }
    } else {
        if real.sentinel && !allow_sentinel { out.push(("C10", "the reported error is the internal left-recursion sentinel")); }
        else if cmp_err && real.err != oracle.err { out.push(("C10", "reported error position is not the furthest failed attempt")); }
    }
    if let Err(m) = post {
        let p: &'static str = if m.len() >= 3 { match &m.as_bytes()[..3] {
            b"C01" => "C01", b"C02" => "C02", b"C03" => "C03", b"C04" => "C04", b"C05" => "C05", b"C06" => "C06", b"C07" => "C07",
            b"C08" => "C08", b"C09" => "C09", b"C10" => "C10", b"C13" => "C13", b"C14" => "C14", b"C19" => "C19", _ => "C01" } } else { "C01" };
        if !out.iter().any(|(q, _)| *q == p) { out.push((p, m)); }
    }
    out
}

/// the first disagreement (kept for the generated Kani harnesses and `replay`)
pub fn judge(input: &str, real: &Obs, bad_rest: bool, oracle: &Obs, cmp_err: bool, cmp_fields: bool, allow_sentinel: bool, post: Result<(), &'static str>) -> Verdict {
    match judge_all(input, real, bad_rest, oracle, cmp_err, cmp_fields, allow_sentinel, post).first() { Some(x) => Err(*x), None => Ok(()) }
}

#[macro_export]
macro_rules! judge_schema {
    ($m:ident, $t:expr) => {{
        let t: &$crate::ops::Tables = $t;
        let real = $crate::schemas::$m::real(t);
        let bad = $crate::ops::bad_rest();
        let oracle = $crate::schemas::$m::oracle(t);
        let post = $crate::schemas::$m::post(t, &real, &oracle);
        $crate::judge(t.input(), &real, bad, &oracle, $crate::schemas::$m::CMP_ERR, $crate::schemas::$m::CMP_FIELDS, $crate::schemas::$m::ALLOW_SENTINEL, post)
    }};
}

#[macro_export]
macro_rules! judge_schema_all {
    ($m:ident, $t:expr) => {{
        let t: &$crate::ops::Tables = $t;
        let real = $crate::schemas::$m::real(t);
        let bad = $crate::ops::bad_rest();
        let oracle = $crate::schemas::$m::oracle(t);
        let post = $crate::schemas::$m::post(t, &real, &oracle);
        ($crate::judge_all(t.input(), &real, bad, &oracle, $crate::schemas::$m::CMP_ERR, $crate::schemas::$m::CMP_FIELDS, $crate::schemas::$m::ALLOW_SENTINEL, post), real.ok, real.end)
    }};
}

/// enumerate every table within the schema's bounds (native, exhaustive)
pub struct Odometer { pub n: usize, pub nmax: usize, pub alphabet: &'static [u8], pub ops: &'static [usize], pub nchk: usize, pub t: Tables, started: bool, done: bool }
impl Odometer {
    pub fn new(nmax: usize, alphabet: &'static [u8], ops: &'static [usize], nchk: usize) -> Self {
        let mut o = Odometer { n: 0, nmax, alphabet, ops, nchk, t: Tables::zero(), started: false, done: false };
        o.reset_for_n(0); o
    }
    fn reset_for_n(&mut self, n: usize) {
        self.n = n; self.t = Tables::zero(); self.t.n = n;
        for i in 0..MAXN { self.t.sym[i] = self.alphabet[0]; }
        for c in 0..NCHK { self.t.chk[c] = [true; NPOS]; }
    }
    /// advance to the next table; false when exhausted
    pub fn next(&mut self) -> bool {
        if self.done { return false; }
        if !self.started { self.started = true; return true; }
        let n = self.n;
        // symbols
        for i in 0..n {
            let k = self.alphabet.iter().position(|b| *b == self.t.sym[i]).unwrap();
            if k + 1 < self.alphabet.len() { self.t.sym[i] = self.alphabet[k + 1]; return true; }
            self.t.sym[i] = self.alphabet[0];
        }
        // operand tables
        for &o in self.ops {
            for p in 0..=n {
                let radix = (n - p + 2) as u8;
                if self.t.op[o][p] + 1 < radix { self.t.op[o][p] += 1; return true; }
                self.t.op[o][p] = 0;
            }
        }
        // check tables
        for c in 0..self.nchk {
            for p in 0..=n {
                if self.t.chk[c][p] { self.t.chk[c][p] = false; return true; }
                self.t.chk[c][p] = true;
            }
        }
        if n < self.nmax { self.reset_for_n(n + 1); return true; }
        self.done = true;
        false
    }
}

pub fn tables_kv(t: &Tables) -> String {
    let j = |b: &[u8]| b.iter().map(|x| x.to_string()).collect::<Vec<_>>().join(",");
    let mut s = format!("n={} sym={}", t.n, j(&t.sym));
    for o in 0..NOPS { s += &format!(" op{}={}", o, j(&t.op[o])); }
    for c in 0..NCHK { s += &format!(" chk{}={}", c, t.chk[c].iter().map(|b| if *b { "1" } else { "0" }).collect::<Vec<_>>().join(",")); }
    s
}

pub fn tables_from_kv(args: &[String]) -> Tables {
    let mut t = Tables::zero();
    for a in args {
        let (k, v) = a.split_once('=').expect("k=v");
        let nums: Vec<u8> = v.split(',').filter(|x| !x.is_empty()).map(|x| x.parse().unwrap()).collect();
        match k {
            "n" => t.n = nums[0] as usize,
            "sym" => { for (i, b) in nums.iter().enumerate().take(MAXN) { t.sym[i] = *b; } }
            _ if k.starts_with("op") => { let o: usize = k[2..].parse().unwrap(); for (i, b) in nums.iter().enumerate().take(NPOS) { t.op[o][i] = *b; } }
            _ if k.starts_with("chk") => { let c: usize = k[3..].parse().unwrap(); for (i, b) in nums.iter().enumerate().take(NPOS) { t.chk[c][i] = *b != 0; } }
            _ => panic!("unknown key {k}"),
        }
    }
    t
}

pub fn describe(t: &Tables) -> String {
    let mut s = format!("input={:?}", t.input());
    for o in 0..NOPS {
        if t.op[o] != [0; NPOS] {
            s += &format!(" {}:[", ["A", "B", "C", "D"][o]);
            for p in 0..=t.n { s += &match t.op[o][p] { 0 => format!("@{p}:fail "), k => format!("@{p}:ok({}) ", k - 1) }; }
            s += "]";
        }
    }
    for c in 0..NCHK { if t.chk[c] != [true; NPOS] { s += &format!(" check{}:{:?}", c, &t.chk[c][..=t.n]); } }
    s
}

#[cfg(kani)]
mod kani_proofs {
    use super::*;
    use super::ops::*;
    /// Kani bound on the input length (the native enumeration goes further)
    pub const KANI_N: usize = 2;
    fn any_tables() -> Tables {
        let mut t = Tables::zero();
        t.n = kani::any();
        kani::assume(t.n <= MAXN);
        let mut i = 0;
        while i < MAXN { t.sym[i] = kani::any(); i += 1; }
        let mut o = 0;
        while o < NOPS { let mut p = 0; while p < NPOS { t.op[o][p] = kani::any(); p += 1; } o += 1; }
        let mut c = 0;
        while c < NCHK { let mut p = 0; while p < NPOS { t.chk[c][p] = kani::any(); p += 1; } c += 1; }
        t
    }
    include!(concat!(env!("SCHEMA_GEN_DIR"), "/kani_harnesses.rs"));
}
