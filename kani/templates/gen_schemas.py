#!/usr/bin/env python3
"""usage: gen_schemas.py <driver binary> <gen dir> [schema names...]
writes <gen dir>/<name>.ebnf, runs the driver (the tree's generator), then writes schemas.rs / dispatch.rs /
kani_harnesses.rs and status.json"""
import os, sys, json, subprocess
HERE = os.path.dirname(os.path.abspath(__file__))
sys.path.insert(0, HERE)
from schemas import ebnf, rust_module
from schema_defs import SCHEMAS

def main(driver, gen, names=None):
    os.makedirs(gen, exist_ok=True)
    names = names or list(SCHEMAS)
    lines = []
    for n in names:
        s = SCHEMAS[n]
        open(os.path.join(gen, n + '.ebnf'), 'w').write(ebnf(s))
        lines.append('%s\t%s\t%s\t%s' % (n, os.path.join(gen, n + '.ebnf'), s.user_ctx or '-', ','.join(s.derives) if s.derives is not None else '-'))
    open(os.path.join(gen, 'list.tsv'), 'w').write('\n'.join(lines) + '\n')
    p = subprocess.run([driver, os.path.join(gen, 'list.tsv'), gen], capture_output=True, text=True)
    status = {}
    if p.returncode != 0:
        print('driver failed:', p.stderr[-2000:]); sys.exit(3)
    for l in open(os.path.join(gen, 'status.tsv')).read().split('\n'):
        if l.strip():
            n, st = l.split('\t', 1)
            status[n] = st
    mods, disp_names, runs, valids, bounds, kani = [], [], [], [], [], []
    result = {}
    for n in names:
        s = SCHEMAS[n]
        st = status.get(n, 'MISSING')
        result[n] = {'driver': st, 'expect': s.expect, 'props': list(s.props)}
        if s.expect == 'reject':
            result[n]['verdict'] = 'ok' if st.startswith('ERR:') else 'violation'
            continue
        if st != 'OK':
            result[n]['verdict'] = 'violation'      # the generator rejected / panicked on a grammar that follows the syntax reference
            continue
        if s.expect.startswith('same_as:'):
            other = s.expect.split(':', 1)[1]
            a = open(os.path.join(gen, n + '.rs')).read()
            b = open(os.path.join(gen, other + '.rs')).read() if status.get(other) == 'OK' else None
            result[n]['verdict'] = 'ok' if a == b else 'violation'
            mods.append('pub mod %s {\n    #![allow(unused, non_snake_case, non_camel_case_types)]\n    include!(concat!(env!("SCHEMA_GEN_DIR"), "/%s.rs"));\n}\n' % (n, n))
            continue
        if s.expect == 'compile':
            mods.append('pub mod %s {\n    #![allow(unused, non_snake_case, non_camel_case_types)]\n    include!(concat!(env!("SCHEMA_GEN_DIR"), "/%s.rs"));\n}\n' % (n, n))
            result[n]['verdict'] = 'compile-pending'
            continue
        mods.append(rust_module(s, gen))
        result[n]['verdict'] = 'harness'
        disp_names.append(n)
    open(os.path.join(gen, 'schemas.rs'), 'w').write('\n'.join(mods))
    d = 'pub const NAMES: &[&str] = &[%s];\n' % ', '.join('"%s"' % n for n in disp_names)
    d += 'pub fn bounds(name: &str) -> Option<(usize, &\'static [u8], &\'static [usize], usize)> {\n    match name {\n'
    for n in disp_names:
        d += '        "%s" => Some((schemas::%s::N, schemas::%s::ALPHABET, schemas::%s::OPS_USED, schemas::%s::NCHK_USED)),\n' % (n, n, n, n, n)
    d += '        _ => None,\n    }\n}\n'
    d += 'pub fn is_valid(name: &str, t: &Tables) -> bool {\n    match name {\n'
    for n in disp_names: d += '        "%s" => schemas::%s::valid(t),\n' % (n, n)
    d += '        _ => false,\n    }\n}\n'
    d += 'pub fn run(name: &str, t: &Tables) -> (Verdict, bool, usize) {\n    match name {\n'
    for n in disp_names:
        d += '        "%s" => { let v = judge_schema!(%s, t); let r = schemas::%s::real(t); (v, r.ok, r.end) }\n' % (n, n, n)
    d += '        _ => panic!("unknown schema"),\n    }\n}\n'
    d += 'pub fn run_all(name: &str, t: &Tables) -> (Vec<(&\'static str, &\'static str)>, bool, usize) {\n    match name {\n'
    for n in disp_names: d += '        "%s" => judge_schema_all!(%s, t),\n' % (n, n)
    d += '        _ => panic!("unknown schema"),\n    }\n}\n'
    d += 'pub fn real_obs(name: &str, t: &Tables) -> Obs {\n    match name {\n'
    for n in disp_names: d += '        "%s" => schemas::%s::real(t),\n' % (n, n)
    d += '        _ => panic!("unknown schema"),\n    }\n}\n'
    d += 'pub fn real_str_obs(name: &str, input: &str) -> Obs {\n    match name {\n'
    for n in disp_names:
        if SCHEMAS[n].deep: d += '        "%s" => schemas::%s::real_str(input),\n' % (n, n)
    d += '        _ => panic!("not a deep-input schema"),\n    }\n}\n'
    open(os.path.join(gen, 'dispatch.rs'), 'w').write(d)
    k = ''
    for n in disp_names:
        sd = SCHEMAS[n]
        if not sd.kani: continue
        k += '''
#[kani::proof]
#[kani::unwind(%(unwind)d)]
fn k_%(n)s() {
    let t = any_tables();
    kani::assume(t.n <= KANI_N && t.n <= schemas::%(n)s::N);
    kani::assume(schemas::%(n)s::valid(&t));
    let v = judge_schema!(%(n)s, &t);
    assert!(v.is_ok(), "generated parser disagrees with the reference semantics");
}
''' % dict(n=n, unwind=8)
    open(os.path.join(gen, 'kani_harnesses.rs'), 'w').write(k)
    json.dump(result, open(os.path.join(gen, 'status.json'), 'w'), indent=1)
    return result

if __name__ == '__main__':
    r = main(sys.argv[1], sys.argv[2], sys.argv[3:] or None)
    for k, v in r.items(): print(k, v['driver'][:100], v['verdict'])
