//! Runs the CURRENT tree's generator (public API of peginator_codegen) on schema grammars.
//! usage: schema_driver <list-file> <out-dir>
//! list-file lines:  <name>\t<ebnf path>\t<user context type or ->\t<derives comma separated or ->
//! writes <out-dir>/<name>.rs (generated code, unmodified) and <out-dir>/status.tsv: <name>\tOK | ERR:<msg> | PANIC
use std::{fs, panic, str::FromStr};

use peginator_codegen::{CodegenGrammar, CodegenSettings, Grammar};

fn main() {
    let args: Vec<String> = std::env::args().collect();
    let list = fs::read_to_string(&args[1]).expect("list file");
    let out = &args[2];
    fs::create_dir_all(out).unwrap();
    let mut status = String::new();
    for line in list.lines() {
        if line.trim().is_empty() { continue; }
        let f: Vec<&str> = line.split('\t').collect();
        let (name, path, ctx, derives) = (f[0], f[1], f[2], f[3]);
        let text = fs::read_to_string(path).expect("schema file");
        let r = panic::catch_unwind(|| -> Result<String, String> {
            let g = Grammar::from_str(&text).map_err(|e| format!("parse error at {}: {:?}", e.position, e.specifics))?;
            let mut settings = CodegenSettings::default();
            if ctx != "-" { settings.set_user_context_type(ctx); }
            if derives != "-" { settings.derives = derives.split(',').filter(|s| !s.is_empty()).map(|s| s.to_string()).collect(); }
            let code = g.generate_code(&settings).map_err(|e| format!("codegen error: {e:#}"))?;
            Ok(code.to_string())
        });
        match r {
            Ok(Ok(code)) => { fs::write(format!("{out}/{name}.rs"), code).unwrap(); status += &format!("{name}\tOK\n"); }
            Ok(Err(e)) => { status += &format!("{name}\tERR:{}\n", e.replace('\n', " ").replace('\t', " ")); }
            Err(_) => { status += &format!("{name}\tPANIC\n"); }
        }
    }
    fs::write(format!("{out}/status.tsv"), status).unwrap();
}
