// reference semantics of  @no_skip_ws @check(chk_m) @check(chk_m2) M = a:A [B]  over the uninterpreted operands: M matches
// a then, optionally, B; its value is a's value; BOTH user functions (arbitrary predicates) must accept the struct
// @broadcast glib::lemma_same_place
pub open spec fn m_body(x: Seq<u8>) -> Option<(u16, int)> {
    match op_a(x) {
        Some((va, na)) => match op_b(rest_after(x, na)) {
            Some((vb, nb)) => Some((va, na + nb)),
            None => Some((va, na)),
        },
        None => None,
    }
}
pub uninterp spec fn chk_m_spec(v: M) -> bool;
pub uninterp spec fn chk_m2_spec(v: M) -> bool;
#[verifier::external_body]
pub fn chk_m(v: &M) -> (r: bool)
    ensures r == chk_m_spec(*v),
{ unimplemented!() }
#[verifier::external_body]
pub fn chk_m2(v: &M) -> (r: bool)
    ensures r == chk_m2_spec(*v),
{ unimplemented!() }
// the rule M as a whole
pub open spec fn m_rule(x: Seq<u8>) -> Option<(u16, int)> {
    match m_body(x) {
        Some((va, n)) => if chk_m_spec(M { a: va }) && chk_m2_spec(M { a: va }) { Some((va, n)) } else { None },
        None => None,
    }
}
