// reference semantics of  R = c:C p:P ['x'] ;  @position P = a:A [b:B]  in SKIPPING rules, over the uninterpreted operands:
// before every operand the maximal run of ASCII white space (ws_prefix_len, the function parse_Whitespace is proved against)
// is skipped, and only there
// @broadcast glib::lemma_same_place
pub open spec fn tok(x: Seq<u8>, o: Option<(u16, int)>) -> Option<(u16, int)> {
    match o { Some((v, n)) => Some((v, ws_prefix_len(x) + n)), None => None }
}
pub open spec fn skipped(x: Seq<u8>) -> Seq<u8> { rest_after(x, ws_prefix_len(x)) }
pub open spec fn tok_a(x: Seq<u8>) -> Option<(u16, int)> { tok(x, op_a(skipped(x))) }
pub open spec fn tok_b(x: Seq<u8>) -> Option<(u16, int)> { tok(x, op_b(skipped(x))) }
pub open spec fn tok_c(x: Seq<u8>) -> Option<(u16, int)> { tok(x, op_c(skipped(x))) }
// body of P from the place P is entered: (a, b, bytes consumed incl. the white space in front of a and of b)
pub open spec fn p_body(x: Seq<u8>) -> Option<(u16, Option<u16>, int)> {
    match tok_a(x) {
        Some((va, na)) => match tok_b(rest_after(x, na)) {
            Some((vb, nb)) => Some((va, Some(vb), na + nb)),
            None => Some((va, None, na)),
        },
        None => None,
    }
}
