// ---------------------------------------------------------------------------------------------
// vocabulary, assumed std specifications and theorems for the line splitter of runtime/src/error.rs (C11).
// Emitted only when the optional extraction group 'pretty' found all its items.
// ---------------------------------------------------------------------------------------------

// ---- assumed specifications of std items (trusted base): str::bytes() and the two Bytes methods used ----
#[verifier::external_type_specification]
#[verifier::external_body]
pub struct ExBytes<'a>(std::str::Bytes<'a>);
pub uninterp spec fn bytes_view<'a>(b: std::str::Bytes<'a>) -> Seq<u8>;
pub assume_specification<'a> [str::bytes] (s: &'a str) -> (r: std::str::Bytes<'a>)
    ensures bytes_view(r) == s.spec_bytes();
pub assume_specification<'a> [<std::str::Bytes<'a> as std::iter::ExactSizeIterator>::len] (b: &std::str::Bytes<'a>) -> (r: usize)
    ensures r == bytes_view(*b).len();
// Iterator::position: index of the first element for which the predicate returns true
pub assume_specification<'a, P> [<std::str::Bytes<'a> as std::iter::Iterator>::position] (b: &mut std::str::Bytes<'a>, p: P) -> (r: std::option::Option<usize>)
    where P: std::ops::FnMut(u8) -> bool
    requires forall|x: u8| p.requires((x,)),
    ensures
        r matches Some(k) ==> k < bytes_view(*old(b)).len() && p.ensures((bytes_view(*old(b))[k as int],), true)
            && forall|i: int| 0 <= i < k ==> p.ensures((#[trigger] bytes_view(*old(b))[i],), false),
        r is None ==> forall|i: int| 0 <= i < bytes_view(*old(b)).len() ==> p.ensures((#[trigger] bytes_view(*old(b))[i],), false);

// ---- vocabulary ----
// index of the first newline at or after i (the length if there is none)
pub open spec fn next_nl(b: Seq<u8>, i: int) -> int
    decreases b.len() - i
{
    if i < 0 || i >= b.len() { b.len() as int } else if b[i] == 10u8 { i } else { next_nl(b, i + 1) }
}
// number of newlines in b[from..to)
pub open spec fn newlines_in(b: Seq<u8>, from: int, to: int) -> int
    decreases to - from
{
    if to <= from || to > b.len() || from < 0 { 0 } else { newlines_in(b, from, to - 1) + if b[to - 1] == 10u8 { 1int } else { 0int } }
}
// start of the line that contains position pos: just after the last newline before pos
pub open spec fn line_start(b: Seq<u8>, pos: int) -> int
    decreases pos
{
    if pos <= 0 || pos > b.len() { 0 } else if b[pos - 1] == 10u8 { pos } else { line_start(b, pos - 1) }
}
// What `IndexedStringLineIterator::new(text).find(|l| l.start_offset <= pos && l.end_offset > pos)` returns, read off the
// contract of `next`: the iterator in state (off, no) yields (start = off, end = next_nl(off) + 1, lineno = no) and moves
// to (end, no + 1); `find` returns the first yielded line that satisfies the predicate. (start, end, lineno); end = 0: none.
pub open spec fn find_line(b: Seq<u8>, off: int, no: int, pos: int) -> (int, int, int)
    decreases b.len() + 1 - off
{
    if off < 0 || off > b.len() { (0, 0, 0) } else {
        let end = next_nl(b, off) + 1;
        // (off < end <= len + 1 always: lemma_next_nl_props; the guard only makes termination syntactic)
        if off <= pos < end { (off, end, no) } else if end <= off || end > b.len() + 1 { (0, 0, 0) } else { find_line(b, end, no + 1, pos) }
    }
}

impl<'a> IndexedStringLineIterator<'a> {
    pub closed spec fn src(&self) -> &'a str { self.source }
    pub closed spec fn off(&self) -> usize { self.byte_offset }
    pub closed spec fn no(&self) -> usize { self.lineno }
    // representation invariant: the text is shorter than usize::MAX, at most one line per byte consumed has been handed
    // out, and while the iterator is not exhausted it stands on a character boundary
    pub open spec fn iter_inv(&self) -> bool {
        let b = self.src().spec_bytes();
        &&& b.len() < usize::MAX
        &&& self.no() <= self.off()
        &&& self.off() <= b.len() ==> is_char_boundary(b, self.off() as int)
    }
}

pub mod pretty {
    use super::*;
    use super::lib::*;

    // Rust: no allocation, hence no str, is longer than isize::MAX bytes
    pub axiom fn axiom_str_len_isize(s: &str)
        ensures s.spec_bytes().len() <= isize::MAX;

    pub proof fn lemma_next_nl(b: Seq<u8>, off: int, nl: int)
        requires 0 <= off <= nl <= b.len(), nl < b.len() ==> b[nl] == 10u8, forall|i: int| off <= i < nl ==> b[i] != 10u8,
        ensures next_nl(b, off) == nl,
        decreases nl - off,
    {
        if off < nl { lemma_next_nl(b, off + 1, nl); }
    }

    // a newline byte starts a character and is followed by a character boundary
    pub proof fn lemma_nl_boundaries(b: Seq<u8>, nl: int)
        requires valid_utf8(b), 0 <= nl <= b.len(), nl < b.len() ==> b[nl] == 10u8,
        ensures is_char_boundary(b, nl), nl < b.len() ==> is_char_boundary(b, nl + 1),
    {
        if nl == b.len() {
            is_char_boundary_start_end_of_seq(b);
        } else {
            is_char_boundary_iff_not_is_continuation_byte(b, nl);
            assert(!is_continuation_byte(10u8));
            valid_utf8_split(b, nl);
            let t = b.subrange(nl, b.len() as int);
            assert(t[0] == 10u8);
            lemma_ascii_first_boundary(t);
            lemma_boundary_compose(b, nl, 1);
        }
    }

    pub proof fn lemma_next_nl_props(b: Seq<u8>, i: int)
        requires 0 <= i <= b.len(),
        ensures i <= next_nl(b, i) <= b.len(), next_nl(b, i) < b.len() ==> b[next_nl(b, i)] == 10u8,
            forall|j: int| i <= j < next_nl(b, i) ==> b[j] != 10u8,
        decreases b.len() - i,
    {
        if i < b.len() && b[i] != 10u8 { lemma_next_nl_props(b, i + 1); }
    }

    pub proof fn lemma_no_newline_line_start(b: Seq<u8>, off: int, pos: int)
        requires 0 <= off <= pos <= b.len(), off == 0 || b[off - 1] == 10u8, forall|j: int| off <= j < pos ==> b[j] != 10u8,
        ensures line_start(b, pos) == off, newlines_in(b, off, pos) == 0,
        decreases pos - off,
    {
        if off < pos { lemma_no_newline_line_start(b, off, pos - 1); }
    }

    pub proof fn lemma_newlines_split(b: Seq<u8>, a: int, m: int, c: int)
        requires 0 <= a <= m <= c <= b.len(),
        ensures newlines_in(b, a, c) == newlines_in(b, a, m) + newlines_in(b, m, c),
        decreases c - m,
    {
        if m < c { lemma_newlines_split(b, a, m, c - 1); }
    }

    // C11: the line the lookup of from_parse_error selects. For every text and every position 0..=len, iterating
    // `next` from the initial state and taking the first line with start <= pos < end
    //   * finds one (the `.unwrap()` cannot panic),
    //   * whose number is the number of newlines before the position (so the 1-based line is that plus one),
    //   * which starts just after the last newline before the position and ends with the next newline (or the text),
    // and it is the only such line because the [start, end) intervals partition 0..=len.
    pub proof fn thm_C11_line_lookup(b: Seq<u8>, off: int, no: int, pos: int)
        requires 0 <= off <= pos <= b.len(), off == 0 || b[off - 1] == 10u8,
        ensures ({
            let (start, end, lineno) = find_line(b, off, no, pos);
            &&& start <= pos < end
            &&& start == line_start(b, pos)
            &&& end == next_nl(b, pos) + 1
            &&& lineno == no + newlines_in(b, off, pos)
        }),
        decreases b.len() - off,
    {
        lemma_next_nl_props(b, off);
        let nl = next_nl(b, off);
        let end = nl + 1;
        if pos < end {
            lemma_no_newline_line_start(b, off, pos);
            lemma_next_nl_props(b, pos);
            lemma_next_nl(b, pos, nl);
        } else {
            // the whole line, newline included, lies before pos: one more newline before pos, look further
            thm_C11_line_lookup(b, end, no + 1, pos);
            lemma_newlines_split(b, off, end, pos);
            lemma_newlines_split(b, off, nl, end);
            lemma_no_newline_line_start(b, off, nl);
            assert(newlines_in(b, nl, end) == 1) by { assert(newlines_in(b, nl, nl) == 0); }
        }
    }

    // C11: instance for the initial iterator state: line number = newlines before the position
    pub proof fn thm_C11_line_number_is_newline_count(b: Seq<u8>, pos: int)
        requires 0 <= pos <= b.len(),
        ensures find_line(b, 0, 0, pos).2 == newlines_in(b, 0, pos), find_line(b, 0, 0, pos).0 == line_start(b, pos),
            find_line(b, 0, 0, pos).0 <= pos < find_line(b, 0, 0, pos).1,
    {
        thm_C11_line_lookup(b, 0, 0, pos);
    }
}
