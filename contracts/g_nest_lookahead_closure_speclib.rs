// @broadcast glib::lemma_same_place
// reference semantics of  R = {!B a:A} [&(B C)] [b:B]  over the uninterpreted operands: the "repeat until" idiom of the syntax
// reference ({!')' body:char}), a positive lookahead of a sequence inside an optional, an optional field
// one iteration: a:A guarded by !B
pub open spec fn guard_a(x: Seq<u8>) -> Option<(u16, int)> {
    if op_b(x) is Some { None } else { op_a(x) }
}
pub open spec fn a_consumes() -> bool { forall|x: Seq<u8>| (#[trigger] op_a(x)) matches Some((v, n)) ==> n > 0 }
pub open spec fn rep(x: Seq<u8>) -> (Seq<u16>, int)
    decreases x.len()
{
    match guard_a(x) {
        Some((v, n)) => if 0 < n <= x.len() { let r = rep(rest_after(x, n)); (seq![v] + r.0, n + r.1) } else { (Seq::empty(), 0) },
        None => (Seq::empty(), 0),
    }
}
// B C in sequence (only looked at)
pub open spec fn bc_ok(x: Seq<u8>) -> bool {
    op_b(x) matches Some((vb, nb)) && op_c(rest_after(x, nb)) is Some
}
pub open spec fn tail(x: Seq<u8>) -> Seq<u8> { rest_after(x, rep(x).1) }
pub open spec fn b_val(x: Seq<u8>) -> Option<u16> { match op_b(tail(x)) { Some((v, n)) => Some(v), None => None } }
pub open spec fn b_len(x: Seq<u8>) -> int { match op_b(tail(x)) { Some((v, n)) => n, None => 0 } }
