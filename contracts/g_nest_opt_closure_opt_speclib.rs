// reference semantics of  R = [a:A {b:B [c:C]}] d:D  over the uninterpreted operands (three constructs deep)
// innermost: b:B [c:C]  ->  (b, the c's: none or one, bytes)
pub open spec fn body(x: Seq<u8>) -> Option<(u16, Seq<u16>, int)> {
    match op_b(x) {
        Some((vb, nb)) => match op_c(rest_after(x, nb)) {
            Some((vc, nc)) => Some((vb, seq![vc], nb + nc)),
            None => Some((vb, Seq::empty(), nb)),
        },
        None => None,
    }
}
// C01's premise: a closure body that succeeds consumes at least one byte
pub open spec fn body_consumes() -> bool { forall|x: Seq<u8>| (#[trigger] body(x)) matches Some((vb, cs, n)) ==> n > 0 }
// {b:B [c:C]}: greedy repetition (b's, c's, bytes)
pub open spec fn rep(x: Seq<u8>) -> (Seq<u16>, Seq<u16>, int)
    decreases x.len()
{
    match body(x) {
        Some((vb, cs, n)) => if 0 < n <= x.len() {
            let r = rep(rest_after(x, n));
            (seq![vb] + r.0, cs + r.1, n + r.2)
        } else { (Seq::empty(), Seq::empty(), 0) },
        None => (Seq::empty(), Seq::empty(), 0),
    }
}
// a:A {b:B [c:C]}  (the closure never fails)
pub open spec fn optbody(x: Seq<u8>) -> Option<(u16, Seq<u16>, Seq<u16>, int)> {
    match op_a(x) {
        Some((va, na)) => { let r = rep(rest_after(x, na)); Some((va, r.0, r.1, na + r.2)) },
        None => None,
    }
}
pub open spec fn opt_len(x: Seq<u8>) -> int { match optbody(x) { Some((va, bs, cs, n)) => n, None => 0 } }
pub open spec fn r_ok(x: Seq<u8>) -> bool { op_d(rest_after(x, opt_len(x))) is Some }
