// ---------------------------------------------------------------------------------------------
// theorems: lemmas over the contracts above (proved, not assumed). Naming: thm_<property ids>_<what>;
// the check attributes a failing theorem to the properties in its name.
// ---------------------------------------------------------------------------------------------
pub mod thm {
    use super::*;
    use super::lib::*;

    // C04: the global invariant implies the state-local one every runtime function requires
    pub proof fn thm_C04_wf_implies_inv<'a>(s: ParseState<'a>, input: Seq<u8>)
        requires s.wf(input),
        ensures s.inv(),
    {
    }

    // C04/C01: a cursor move established by advance()/advance_safe() keeps the cursor on a character
    // boundary inside the input and never moves backwards ("never gives characters back")
    pub proof fn thm_C04_C01_moved_preserves_wf<'a>(s: ParseState<'a>, r: ParseState<'a>, n: int, input: Seq<u8>)
        requires s.wf(input), s.moved(r, n),
        ensures r.wf(input), r.inv(), r.idx() >= s.idx(), r.idx() <= input.len(),
    {
        broadcast use group_lib;
        let b = s.bytes();
        assert(r.bytes() =~= input.subrange(r.idx() as int, input.len() as int));
        lemma_boundary_compose(input, s.idx() as int, n);
    }

    // C04/C01/C02: every successful terminal match (the `matched` postcondition of all eight matchers)
    // leaves a well-formed state at or after the old one
    pub proof fn thm_C04_C01_matched_wf<'a, T>(state: ParseState<'a>, r: ParseResult<'a, T>, v: T, n: int, input: Seq<u8>)
        requires state.wf(input), matched(state, r, v, n),
        ensures r matches Ok(ok) && ok.state.wf(input) && ok.state.idx() == state.idx() + n && ok.state.far() == state.far(),
    {
        thm_C04_C01_moved_preserves_wf(state, r->Ok_0.state, n, input);
    }

    // C10/C04: every error leaving a terminal matcher (the `failed` postcondition) is on a character
    // boundary inside the input, not before the current offset, and is either the matcher's own failure at
    // the current offset or the error already recorded on this state's path
    pub proof fn thm_C10_C04_failed_error<'a, T>(state: ParseState<'a>, r: ParseResult<'a, T>, sp: ParseErrorSpecifics, input: Seq<u8>)
        requires state.wf(input), failed(state, r, sp),
        ensures r matches Err(e) && err_ok(e, input) && e.position >= state.idx()
            && (e == state.own_error(sp) || (Some(e) == state.far() && e.position > state.idx())),
    {
    }

    // C10: record_error keeps a well-formed state well-formed and the recorded error is the furthest so far,
    // an equally far newer error replacing the older one
    pub proof fn thm_C10_record_wf<'a>(s: ParseState<'a>, r: ParseState<'a>, e: ParseError, input: Seq<u8>)
        requires
            s.wf(input), err_ok(e, input),
            r.idx() == s.idx(), r.rest() == s.rest(), r.far() == Some(furthest(s.far(), e)),
        ensures
            r.wf(input),
            r.far()->Some_0.position >= e.position,
            s.far() matches Some(f) ==> r.far()->Some_0.position >= f.position,
            r.far()->Some_0 == e || Some(r.far()->Some_0) == s.far(),
    {
    }

    // C10/C01: one step of ordered choice keeps the helper's state well-formed
    pub proof fn thm_C10_C01_choice_step_wf<'a, T>(h: ChoiceHelper<'a, T>, o: ParseResult<'a, T>, r: ChoiceHelper<'a, T>, input: Seq<u8>)
        requires
            h.st().wf(input), choice_step(h, o, r),
            o matches Err(e) ==> err_ok(e, input),
        ensures r.st().wf(input), r.st().idx() == h.st().idx(),
    {
        if let Err(e) = o {
            thm_C10_record_wf(h.st(), r.st(), e, input);
        }
    }

    // C05/C06: the cache key (absolute offset) determines the remaining input: two states of one parse with
    // equal keys see the same bytes and characters (they can differ only in the recorded error)
    pub proof fn thm_C05_C06_key_determines_rest<'a>(a: ParseState<'a>, b: ParseState<'a>, input: Seq<u8>)
        requires a.wf(input), b.wf(input), a.idx() == b.idx(),
        ensures a.bytes() =~= b.bytes(), a.chars() =~= b.chars(),
    {
        encode_utf8_decode_utf8(a.chars());
        encode_utf8_decode_utf8(b.chars());
    }

    // C09/C02/C04: between two states of one parse, slice_until()'s precondition holds and the slice is
    // exactly the input bytes between the two offsets, which both are character boundaries
    pub proof fn thm_C09_C02_slice_is_span<'a>(a: ParseState<'a>, b: ParseState<'a>, input: Seq<u8>)
        requires a.wf(input), b.wf(input), a.idx() <= b.idx(),
        ensures
            a.reaches(&b),
            a.bytes().subrange(0, b.idx() - a.idx()) =~= input.subrange(a.idx() as int, b.idx() as int),
            is_char_boundary(input, a.idx() as int), is_char_boundary(input, b.idx() as int),
    {
        broadcast use group_lib;
        let n = b.idx() - a.idx();
        let t = input.subrange(a.idx() as int, input.len() as int);
        valid_utf8_split(input, a.idx() as int);
        if b.idx() == input.len() {
            is_char_boundary_start_end_of_seq(t);
        } else {
            is_char_boundary_iff_not_is_continuation_byte(input, b.idx() as int);
            is_char_boundary_iff_not_is_continuation_byte(t, n);
            assert(t[n] == input[b.idx() as int]);
        }
    }

    // C08: ws_prefix_len is the length of the maximal prefix of the five ASCII whitespace bytes
    pub proof fn thm_C08_ws_prefix_maximal(b: Seq<u8>)
        ensures
            0 <= ws_prefix_len(b) <= b.len(),
            forall|i: int| 0 <= i < ws_prefix_len(b) ==> is_ws_byte(#[trigger] b[i]),
            ws_prefix_len(b) < b.len() ==> !is_ws_byte(b[ws_prefix_len(b)]),
        decreases b.len(),
    {
        if b.len() > 0 && is_ws_byte(b[0]) {
            let t = b.subrange(1, b.len() as int);
            thm_C08_ws_prefix_maximal(t);
            assert forall|i: int| 0 <= i < ws_prefix_len(b) implies is_ws_byte(#[trigger] b[i]) by {
                if i > 0 { assert(b[i] == t[i - 1]); }
            }
            if ws_prefix_len(b) < b.len() {
                assert(b[ws_prefix_len(b)] == t[ws_prefix_len(t)]);
            }
        }
    }

    // C08: the near misses named in the property are not whitespace: \x0B, and the lead bytes of U+00A0 (C2 A0)
    // and U+2003 (E2 80 83); no byte >= 0x80 is, so the skipper can never stop inside a multi-byte character
    pub proof fn thm_C08_near_misses()
        ensures
            !is_ws_byte(0x0B), !is_ws_byte(0xC2), !is_ws_byte(0xE2),
            is_ws_byte(0x20), is_ws_byte(0x09), is_ws_byte(0x0A), is_ws_byte(0x0C), is_ws_byte(0x0D),
            forall|b: u8| b >= 0x80 ==> !is_ws_byte(b),
    {
    }

    // C01: the case-insensitive matchers implement ASCII case-insensitive equality when the literal has been
    // lower-cased (which is what the generator passes)
    pub open spec fn eq_ignore_ascii_case(a: Seq<u8>, b: Seq<u8>) -> bool {
        a.len() == b.len() && forall|i: int| 0 <= i < a.len() ==> lower_byte(#[trigger] a[i]) == lower_byte(b[i])
    }

    pub proof fn thm_C01_insensitive_is_case_fold(input: Seq<u8>, lit: Seq<u8>)
        requires forall|i: int| 0 <= i < lit.len() ==> lower_byte(#[trigger] lit[i]) == lit[i],
        ensures istr_matches(input, lit) <==> (lit.len() <= input.len() && eq_ignore_ascii_case(input.subrange(0, lit.len() as int), lit)),
    {
        if lit.len() <= input.len() {
            let p = input.subrange(0, lit.len() as int);
            if istr_matches(input, lit) {
                assert forall|i: int| 0 <= i < p.len() implies lower_byte(#[trigger] p[i]) == lower_byte(lit[i]) by {
                    assert(p[i] == input[i]);
                }
            }
            if eq_ignore_ascii_case(p, lit) {
                assert forall|i: int| 0 <= i < lit.len() implies lower_byte(#[trigger] input[i]) == lit[i] by {
                    assert(p[i] == input[i]);
                }
            }
        }
    }

    // C01/C04: lower_byte never maps a non-ASCII byte to an ASCII one, so a successful insensitive match of an
    // ASCII literal consumed ASCII bytes only
    pub proof fn thm_C04_lower_byte_ascii(b: u8)
        ensures (lower_byte(b) < 0x80) <==> (b < 0x80),
    {
    }

    // C07: the grow loop's comparison is strict, so each accepted growth strictly decreases the remaining
    // input; at most |input| + 1 growths are possible
    pub proof fn thm_C07_growth_measure<'a>(old_best: ParseState<'a>, new_best: ParseState<'a>, input: Seq<u8>)
        requires old_best.wf(input), new_best.wf(input), new_best.idx() > old_best.idx(),
        ensures input.len() - new_best.idx() < input.len() - old_best.idx(), input.len() - new_best.idx() >= 0,
    {
    }

    // C19: the bookkeeping obligation on callers. Model the tracer callbacks of one parse as a word over
    // {entry = true, exit = false}; `depth` is the level IndentedTracer holds after the word (by its contract:
    // +1 / -1 from level 0). If the word is properly nested (no prefix has more exits than entries) then at
    // every exit the level is >= 1 - the precondition of print_trace_result - so the indentation never underflows,
    // and a balanced word ends at level 0.
    pub open spec fn depth(ev: Seq<bool>) -> int
        decreases ev.len()
    {
        if ev.len() == 0 { 0 } else { depth(ev.drop_last()) + if ev.last() { 1int } else { -1int } }
    }
    pub open spec fn properly_nested(ev: Seq<bool>) -> bool {
        forall|k: int| 0 <= k <= ev.len() ==> depth(#[trigger] ev.subrange(0, k)) >= 0
    }
    pub proof fn thm_C19_nested_word_never_underflows(ev: Seq<bool>, k: int)
        requires properly_nested(ev), 0 <= k < ev.len(), !ev[k],
        ensures depth(ev.subrange(0, k)) >= 1,
    {
        let p1 = ev.subrange(0, k + 1);
        assert(p1.drop_last() =~= ev.subrange(0, k));
        assert(p1.last() == ev[k]);
        assert(depth(p1) >= 0);
    }

    // C01/C10: n-ary ordered choice. The generated code for `e1 | .. | en` is
    // ChoiceHelper::new(st).choice(f1)...choice(fn).end(); by the contracts of `choice` the helpers form a chain
    // h0 .. hn in which step i is choice_step on the outcome of alternative i while no alternative has matched,
    // and the identity afterwards. Then: the value is that of the FIRST alternative that matches (k), later
    // alternatives change nothing, the cursor never moves, and the recorded error is the furthest of the
    // errors of the alternatives before k (all of them if none matches) and what was recorded before.
    pub open spec fn fold_far<'a, T>(far: Option<ParseError>, outs: Seq<ParseResult<'a, T>>, n: int) -> Option<ParseError>
        decreases n
    {
        if n <= 0 { far } else {
            match outs[n - 1] {
                Err(e) => Some(furthest(fold_far(far, outs, n - 1), e)),
                Ok(_) => fold_far(far, outs, n - 1),
            }
        }
    }
    pub open spec fn choice_chain<'a, T>(hs: Seq<ChoiceHelper<'a, T>>, outs: Seq<ParseResult<'a, T>>) -> bool {
        &&& hs.len() == outs.len() + 1
        &&& forall|i: int| 0 <= i < outs.len() ==>
                (#[trigger] hs[i]).res().is_some() ==> hs[i + 1] == hs[i]
        &&& forall|i: int| 0 <= i < outs.len() ==>
                (#[trigger] hs[i]).res().is_none() ==> choice_step(hs[i], outs[i], hs[i + 1])
    }
    pub proof fn thm_C01_C10_ordered_choice<'a, T>(hs: Seq<ChoiceHelper<'a, T>>, outs: Seq<ParseResult<'a, T>>, k: int, j: int)
        requires
            choice_chain(hs, outs), hs[0].res().is_none(),
            0 <= k <= outs.len(),
            forall|i: int| 0 <= i < k ==> (#[trigger] outs[i]) is Err,
            k < outs.len() ==> outs[k] is Ok,
            0 <= j <= outs.len(),
        ensures
            hs[j].st().idx() == hs[0].st().idx(), hs[j].st().rest() == hs[0].st().rest(),
            j <= k ==> (hs[j].res().is_none() && hs[j].st().far() == fold_far(hs[0].st().far(), outs, j)),
            j > k ==> (hs[j].res() == Some(outs[k]->Ok_0) && hs[j].st().far() == fold_far(hs[0].st().far(), outs, k)),
        decreases j,
    {
        if j > 0 {
            thm_C01_C10_ordered_choice(hs, outs, k, j - 1);
            let h = hs[j - 1];
            if j - 1 < k {
                assert(outs[j - 1] is Err);
                assert(choice_step(h, outs[j - 1], hs[j]));
            } else if j - 1 == k {
                assert(choice_step(h, outs[k], hs[j]));
            } else {
                assert(h.res().is_some());
                assert(hs[j] == h);
            }
        }
    }

    // C10: `furthest` is the maximum of the positions, a tie going to the newer error
    pub proof fn thm_C10_furthest_is_max(far: Option<ParseError>, e: ParseError)
        ensures
            furthest(far, e).position >= e.position,
            far matches Some(f) ==> furthest(far, e).position >= f.position,
            furthest(far, e) == e || Some(furthest(far, e)) == far,
            (far matches Some(f) && f.position == e.position) ==> furthest(far, e) == e,
    {
    }
}
