// GENERATED FILE (layer R): items below `// ===== from <file> =====` are copied from /repo by
// extract/extract.py on every run; see DESIGN.md §3.2 for the complete list of differences.
#![feature(pattern)]
#![allow(unused)]
#![allow(non_snake_case)]
use vstd::prelude::*;
use vstd::string::*;
use vstd::utf8::*;
use vstd::slice::*;
