// reference semantics of  R = a:A {b:B a:A} b:B  over the uninterpreted operands: both fields are filled from two places
pub open spec fn seq_ba(x: Seq<u8>) -> Option<(u16, u16, int)> {
    match op_b(x) {
        Some((vb, nb)) => match op_a(rest_after(x, nb)) {
            Some((va, na)) => Some((vb, va, nb + na)),
            None => None,
        },
        None => None,
    }
}
pub open spec fn body_consumes() -> bool { forall|x: Seq<u8>| (#[trigger] seq_ba(x)) matches Some((vb, va, n)) ==> n > 0 }
// {b:B a:A}: (a's, b's, bytes); an iteration whose a:A fails after its b:B matched is abandoned and leaves no trace
pub open spec fn rep(x: Seq<u8>) -> (Seq<u16>, Seq<u16>, int)
    decreases x.len()
{
    match seq_ba(x) {
        Some((vb, va, n)) => if 0 < n <= x.len() {
            let r = rep(rest_after(x, n));
            (seq![va] + r.0, seq![vb] + r.1, n + r.2)
        } else { (Seq::empty(), Seq::empty(), 0) },
        None => (Seq::empty(), Seq::empty(), 0),
    }
}
// the whole body: (a's, b's, bytes) when it matches
pub open spec fn r_val(x: Seq<u8>) -> Option<(Seq<u16>, Seq<u16>, int)> {
    match op_a(x) {
        Some((va, na)) => {
            let r = rep(rest_after(x, na));
            match op_b(rest_after(x, na + r.2)) {
                Some((vb, nb)) => Some((seq![va] + r.0, r.1 + seq![vb], na + r.2 + nb)),
                None => None,
            }
        },
        None => None,
    }
}
