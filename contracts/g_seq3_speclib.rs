// reference semantics of  R = a:A B c:C : a sequence with an unnamed middle part
pub open spec fn abc(x: Seq<u8>) -> Option<(u16, u16, int)> {
    match op_a(x) {
        Some((va, na)) => match op_b(rest_after(x, na)) {
            Some((vb, nb)) => match op_c(rest_after(x, na + nb)) {
                Some((vc, nc)) => Some((va, vc, na + nb + nc)),
                None => None,
            },
            None => None,
        },
        None => None,
    }
}
