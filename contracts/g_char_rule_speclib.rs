// reference semantics of  @char Cls = 'x' | 'b'..'c' | Other;  @char @check(chk_char0) Other = 'y' | 'z';
pub open spec fn other_ok(c: char) -> bool { (c == 'y' || c == 'z') && chk_spec0(c) }
pub open spec fn cls_ok(c: char) -> bool { c == 'x' || ('b' <= c <= 'c') || other_ok(c) }
