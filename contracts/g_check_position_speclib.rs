// reference semantics of  @no_skip_ws @position @check(chk_m) M = a:A [B]  over the uninterpreted operands:
// M matches a then, optionally, B; its value is a's value; the user's check function decides on the finished struct
// @broadcast glib::lemma_same_place
pub open spec fn m_body(x: Seq<u8>) -> Option<(u16, int)> {
    match op_a(x) {
        Some((va, na)) => match op_b(rest_after(x, na)) {
            Some((vb, nb)) => Some((va, na + nb)),
            None => Some((va, na)),
        },
        None => None,
    }
}
// the user's check function: an arbitrary predicate on the struct it is shown
pub uninterp spec fn chk_m_spec(v: M) -> bool;
#[verifier::external_body]
pub fn chk_m(v: &M) -> (r: bool)
    ensures r == chk_m_spec(*v),
{ unimplemented!() }
