// reference semantics of  R = a:A (b:B c:C) $  over the uninterpreted operands. This ONE definition is the contract of the
// code generated for the including grammar  R = a:A >I1 $; I1 = >I2 c:C; I2 = b:B  (schema include_chain) AND of the code
// generated for the grammar with the bodies written in place  R = a:A ((b:B) c:C) $  (its differential twin): C13 for this
// instance, all inputs, all operand behaviours.
pub open spec fn bc(x: Seq<u8>) -> Option<(u16, u16, int)> {
    match op_b(x) {
        Some((vb, nb)) => match op_c(rest_after(x, nb)) {
            Some((vc, nc)) => Some((vb, vc, nb + nc)),
            None => None,
        },
        None => None,
    }
}
pub open spec fn r_val(x: Seq<u8>) -> Option<(u16, u16, u16)> {
    match op_a(x) {
        Some((va, na)) => match bc(rest_after(x, na)) {
            Some((vb, vc, n)) => if na + n == x.len() { Some((va, vb, vc)) } else { None },
            None => None,
        },
        None => None,
    }
}
