// reference semantics of  R = [a:A b:B] c:C  over the uninterpreted operands
pub open spec fn seq_ab(b: Seq<u8>) -> Option<(u16, u16, int)> {
    match op_a(b) {
        Some((va, na)) => match op_b(rest_after(b, na)) {
            Some((vb, nb)) => Some((va, vb, na + nb)),
            None => None,
        },
        None => None,
    }
}
// bytes consumed by the optional: those of its body if the body matches, none otherwise (an optional never fails)
pub open spec fn opt_len(b: Seq<u8>) -> int {
    match seq_ab(b) { Some((va, vb, n)) => n, None => 0 }
}
pub open spec fn r_ok(b: Seq<u8>) -> bool { op_c(rest_after(b, opt_len(b))) is Some }
// (a, b, c, bytes consumed) of a successful parse
pub open spec fn r_val(b: Seq<u8>) -> (Option<u16>, Option<u16>, u16, int) {
    let (a, bb) = match seq_ab(b) { Some((va, vb, n)) => (Some(va), Some(vb)), None => (None, None) };
    match op_c(rest_after(b, opt_len(b))) { Some((vc, nc)) => (a, bb, vc, opt_len(b) + nc), None => (a, bb, 0u16, 0int) }
}
