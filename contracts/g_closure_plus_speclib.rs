// reference semantics of  R = {a:A b:B}+ c:C  over the uninterpreted operands
pub open spec fn seq_ab(b: Seq<u8>) -> Option<(u16, u16, int)> {
    match op_a(b) {
        Some((va, na)) => match op_b(rest_after(b, na)) {
            Some((vb, nb)) => Some((va, vb, na + nb)),
            None => None,
        },
        None => None,
    }
}
// greedy repetition; by C01's premise a closure body that succeeds consumes at least one byte
pub open spec fn body_consumes() -> bool { forall|b: Seq<u8>| (#[trigger] seq_ab(b)) matches Some((va, vb, n)) ==> n > 0 }
pub open spec fn rep_ab(b: Seq<u8>) -> (Seq<u16>, Seq<u16>, int)
    decreases b.len()
{
    match seq_ab(b) {
        Some((va, vb, n)) => if 0 < n <= b.len() {
            let r = rep_ab(rest_after(b, n));
            (seq![va] + r.0, seq![vb] + r.1, n + r.2)
        } else { (Seq::empty(), Seq::empty(), 0) },
        None => (Seq::empty(), Seq::empty(), 0),
    }
}
// the whole rule body: the repetition, then c:C where the repetition stopped
pub open spec fn r_c(b: Seq<u8>) -> (u16, int) {
    match op_c(rest_after(b, rep_ab(b).2)) { Some((vc, nc)) => (vc, nc), None => (0u16, 0int) }
}
pub open spec fn r_matches(b: Seq<u8>) -> bool {
    rep_ab(b).2 > 0 && op_c(rest_after(b, rep_ab(b).2)) is Some
}
