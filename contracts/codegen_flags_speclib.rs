// ---- Rule::flags ----
pub open spec fn kind_of(d: DirectiveExpression) -> int {
    match d {
        DirectiveExpression::CheckDirective(_) => 0,
        DirectiveExpression::ExportDirective(_) => 1,
        DirectiveExpression::LeftrecDirective(_) => 2,
        DirectiveExpression::MemoizeDirective(_) => 3,
        DirectiveExpression::NoSkipWsDirective(_) => 4,
        DirectiveExpression::PositionDirective(_) => 5,
        DirectiveExpression::StringDirective(_) => 6,
    }
}
// a directive of kind k occurs among the first n directives
pub open spec fn has_kind(d: Seq<DirectiveExpression>, n: int, k: int) -> bool
    decreases n
{
    if n <= 0 { false } else { has_kind(d, n - 1, k) || kind_of(d[n - 1]) == k }
}
pub open spec fn flags_upto(f: RuleFlags, d: Seq<DirectiveExpression>, n: int) -> bool {
    &&& f.export == has_kind(d, n, 1)
    &&& f.left_recursive == has_kind(d, n, 2)
    &&& f.memoize == has_kind(d, n, 3)
    &&& f.no_skip_ws == has_kind(d, n, 4)
    &&& f.position == has_kind(d, n, 5)
    &&& f.string == has_kind(d, n, 6)
}
// X2-like: the derived Default of RuleFlags is assumed to clear every flag
impl Default for RuleFlags {
    #[verifier::external_body]
    fn default() -> (r: Self)
        ensures !r.no_skip_ws, !r.export, !r.string, !r.position, !r.memoize, !r.left_recursive
    { unimplemented!() }
}

pub mod thm3 {
    use super::*;
    // C12: has_kind is "a directive of that kind is present, wherever it stands": the flags do not depend on the order
    // of the directives, and @check directives (kind 0) set none of them
    pub proof fn thm_C12_has_kind_is_presence(d: Seq<DirectiveExpression>, n: int, k: int)
        requires 0 <= n <= d.len(),
        ensures has_kind(d, n, k) <==> exists|i: int| 0 <= i < n && kind_of(#[trigger] d[i]) == k,
        decreases n,
    {
        if n > 0 {
            thm_C12_has_kind_is_presence(d, n - 1, k);
            if has_kind(d, n, k) {
                if kind_of(d[n - 1]) == k { assert(0 <= n - 1 < n && kind_of(d[n - 1]) == k); }
            }
        }
    }
}
