// reference semantics of  R = [[a:A]] [([b:B])] c:C  over the uninterpreted operands: an optional directly inside an optional
// (the outer one can never be skipped, because the inner one never fails), with and without a group in between
pub open spec fn a_len(x: Seq<u8>) -> int { match op_a(x) { Some((v, n)) => n, None => 0 } }
pub open spec fn a_val(x: Seq<u8>) -> Option<u16> { match op_a(x) { Some((v, n)) => Some(v), None => None } }
pub open spec fn after_a(x: Seq<u8>) -> Seq<u8> { rest_after(x, a_len(x)) }
pub open spec fn b_len(x: Seq<u8>) -> int { match op_b(after_a(x)) { Some((v, n)) => n, None => 0 } }
pub open spec fn b_val(x: Seq<u8>) -> Option<u16> { match op_b(after_a(x)) { Some((v, n)) => Some(v), None => None } }
pub open spec fn after_b(x: Seq<u8>) -> Seq<u8> { rest_after(after_a(x), b_len(x)) }
