// ---------------------------------------------------------------------------------------------
// layer G: vocabulary for verifying GENERATED code of schema grammars. The abstract operands A..D are
// uninterpreted functions of the remaining input; the `crate::ops` functions are assumed to implement them and to
// return lengths that end on a character boundary inside the input (the property's premise for extern rules).
// ---------------------------------------------------------------------------------------------
pub assume_specification<T>[<T as core::convert::From<T>>::from](t: T) -> (r: T)
    ensures r == t;

// Result::or_else: Ok is passed through, on Err the function decides
pub assume_specification<T, E, F, O: FnOnce(E) -> Result<T, F>>[Result::<T, E>::or_else](r: Result<T, E>, op: O) -> (res: Result<T, F>)
    requires r matches Err(e) ==> op.requires((e,)),
    ensures
        r matches Ok(t) ==> res == Ok::<T, F>(t),
        r matches Err(e) ==> op.ensures((e,), res);

pub uninterp spec fn iter_items<T, I: IntoIterator<Item = T>>(it: I) -> Seq<T>;
pub assume_specification<T, A: core::alloc::Allocator, I: IntoIterator<Item = T>>[<Vec<T, A> as core::iter::Extend<T>>::extend::<I>](v: &mut Vec<T, A>, it: I)
    ensures final(v)@ =~= old(v)@ + iter_items::<T, I>(it);

pub mod glib {
    use super::*;
    // trusted: extending a Vec with a Vec appends its elements
    pub broadcast axiom fn axiom_iter_items_vec<T>(v: Vec<T>)
        ensures #[trigger] iter_items::<T, Vec<T>>(v) == v@;

    // proved: two states at the same offset over the same remaining input are "moved by 0 bytes" (a skipped optional,
    // a lookahead)
    pub broadcast proof fn lemma_same_place<'a>(a: ParseState<'a>, b: ParseState<'a>)
        requires a.idx() == b.idx(), a.rest() == b.rest(),
        ensures #[trigger] a.moved_any_far(b, 0),
    {
        let x = a.bytes();
        encode_utf8_valid_utf8(a.rest()@);
        is_char_boundary_start_end_of_seq(x);
        assert(x.subrange(0, x.len() as int) =~= x);
    }
}

pub uninterp spec fn op_a(rest: Seq<u8>) -> Option<(u16, int)>;
pub uninterp spec fn op_b(rest: Seq<u8>) -> Option<(u16, int)>;
pub uninterp spec fn op_c(rest: Seq<u8>) -> Option<(u16, int)>;
pub uninterp spec fn op_d(rest: Seq<u8>) -> Option<(u16, int)>;
pub open spec fn op_ok(rest: Seq<u8>, o: Option<(u16, int)>) -> bool {
    o matches Some((v, n)) ==> 0 <= n <= rest.len() && is_char_boundary(rest, n)
}
pub open spec fn op_result(o: Option<(u16, int)>, r: Result<(u16, usize), &'static str>) -> bool {
    &&& o matches Some((v, n)) ==> r == Ok::<(u16, usize), &'static str>((v, n as usize))
    &&& o is None ==> r is Err
}
// result of an @extern rule function generated for operand `o`
pub open spec fn extern_rule<'a>(state: ParseState<'a>, r: ParseResult<'a, u16>, o: Option<(u16, int)>) -> bool {
    &&& o matches Some((v, n)) ==> matched(state, r, v, n)
    &&& o is None ==> (r matches Err(e) && e.position == furthest(state.far(), state.own_error(ParseErrorSpecifics::Other)).position)
}
pub open spec fn rest_after(b: Seq<u8>, n: int) -> Seq<u8> { b.subrange(n, b.len() as int) }

pub uninterp spec fn chk_spec0(c: char) -> bool;
pub mod ops {
    use super::*;
    #[verifier::external_body]
    pub fn chk_char0(c: char) -> (r: bool)
        ensures r == chk_spec0(c),
    { unimplemented!() }
    #[verifier::external_body]
    pub fn a(rest: &str) -> (r: Result<(u16, usize), &'static str>)
        ensures op_ok(rest.spec_bytes(), op_a(rest.spec_bytes())), op_result(op_a(rest.spec_bytes()), r),
    { unimplemented!() }
    #[verifier::external_body]
    pub fn b(rest: &str) -> (r: Result<(u16, usize), &'static str>)
        ensures op_ok(rest.spec_bytes(), op_b(rest.spec_bytes())), op_result(op_b(rest.spec_bytes()), r),
    { unimplemented!() }
    #[verifier::external_body]
    pub fn c(rest: &str) -> (r: Result<(u16, usize), &'static str>)
        ensures op_ok(rest.spec_bytes(), op_c(rest.spec_bytes())), op_result(op_c(rest.spec_bytes()), r),
    { unimplemented!() }
    #[verifier::external_body]
    pub fn d(rest: &str) -> (r: Result<(u16, usize), &'static str>)
        ensures op_ok(rest.spec_bytes(), op_d(rest.spec_bytes())), op_result(op_d(rest.spec_bytes()), r),
    { unimplemented!() }
}
