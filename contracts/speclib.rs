// ---------------------------------------------------------------------------------------------
// speclib: specification vocabulary, assumed specifications of std functions, library lemmas.
// Nothing in here is executable code of /repo.
// ---------------------------------------------------------------------------------------------

// ---- assumed specifications of std items (trusted base, DESIGN §3.3) ----
pub assume_specification<I: core::slice::SliceIndex<str>>[str::get_unchecked::<I>](s: &str, i: I) -> (r: &I::Output)
    requires i.in_bounds(s),
    ensures i.index_postcondition(s, r);

pub assume_specification<I: core::slice::SliceIndex<str>>[<str as core::ops::Index<I>>::index](s: &str, i: I) -> (r: &I::Output)
    ensures i.index_postcondition(s, r);

// not used by the current tree; specified so that plausible rewrites stay within the verifier's reach
pub assume_specification<I: core::slice::SliceIndex<str>>[str::get::<I>](s: &str, i: I) -> (r: Option<&I::Output>)
    ensures
        i.in_bounds(s) ==> (r matches Some(x) && i.index_postcondition(s, x)),
        !i.in_bounds(s) ==> r is None;

// X2: derived Clone of the runtime types: assumed to return an equal value.
#[verifier::external_body]
pub fn clone_state<'a>(s: &ParseState<'a>) -> (r: ParseState<'a>)
    ensures r == *s
{ s.clone() }

impl<'a> Clone for ParseState<'a> {
    #[verifier::external_body]
    fn clone(&self) -> (r: Self)
        ensures r == *self
    { unimplemented!() }
}

// ---- abstract view of ParseState ----
pub open spec fn err_ok(e: ParseError, input: Seq<u8>) -> bool {
    e.position <= input.len() && is_char_boundary(input, e.position as int)
}

// newer-or-equal wins (the syntax reference: "the furthest position ... ")
pub open spec fn furthest(far: Option<ParseError>, e: ParseError) -> ParseError {
    match far {
        Some(f) => if f.position <= e.position { e } else { f },
        None => e,
    }
}

impl<'a> ParseState<'a> {
    pub closed spec fn idx(&self) -> usize { self.start_index }
    pub closed spec fn rest(&self) -> &'a str { self.partial_string }
    pub closed spec fn far(&self) -> Option<ParseError> { self.farthest_error }

    pub open spec fn bytes(&self) -> Seq<u8> { self.rest().spec_bytes() }
    pub open spec fn chars(&self) -> Seq<char> { self.rest()@ }

    // state-local invariant: the absolute end offset fits a usize
    pub open spec fn inv(&self) -> bool { self.idx() + self.bytes().len() <= usize::MAX }

    // global invariant w.r.t. the whole input (ghost: ParseState does not store it)
    pub open spec fn wf(&self, input: Seq<u8>) -> bool {
        &&& valid_utf8(input)
        &&& self.idx() <= input.len() <= usize::MAX
        &&& self.bytes() =~= input.subrange(self.idx() as int, input.len() as int)
        &&& is_char_boundary(input, self.idx() as int)
        &&& (self.far() matches Some(e) ==> err_ok(e, input))
    }

    // r is self moved forward by n bytes, n on a char boundary of the remaining input
    pub open spec fn moved(&self, r: ParseState<'a>, n: int) -> bool {
        &&& 0 <= n <= self.bytes().len()
        &&& is_char_boundary(self.bytes(), n)
        &&& r.idx() == self.idx() + n
        &&& r.bytes() =~= self.bytes().subrange(n, self.bytes().len() as int)
        &&& r.far() == self.far()
    }

    // like `moved`, but the recorded error may have changed (closures and optionals fold errors into the state)
    pub open spec fn moved_any_far(&self, r: ParseState<'a>, n: int) -> bool {
        &&& 0 <= n <= self.bytes().len()
        &&& is_char_boundary(self.bytes(), n)
        &&& r.idx() == self.idx() + n
        &&& r.bytes() =~= self.bytes().subrange(n, self.bytes().len() as int)
    }

    // other is a state of the same parse at or after self
    pub open spec fn reaches(&self, other: &ParseState) -> bool {
        &&& self.idx() <= other.idx()
        &&& other.idx() - self.idx() <= self.bytes().len()
        &&& is_char_boundary(self.bytes(), other.idx() - self.idx())
    }

    pub open spec fn own_error(&self, specifics: ParseErrorSpecifics) -> ParseError {
        ParseError { position: self.idx(), specifics }
    }
}

impl<'a, T> ChoiceHelper<'a, T> {
    pub closed spec fn st(&self) -> ParseState<'a> { self.state }
    pub closed spec fn res(&self) -> Option<ParseOk<'a, T>> { self.result }
}

// one step of ordered choice: o is what the alternative returned when run on h.st()
pub open spec fn choice_step<'a, T>(h: ChoiceHelper<'a, T>, o: ParseResult<'a, T>, r: ChoiceHelper<'a, T>) -> bool {
    match o {
        Ok(k) => r.res() == Some(k) && r.st() == h.st(),
        Err(e) => {
            &&& r.res().is_none()
            &&& r.st().idx() == h.st().idx()
            &&& r.st().rest() == h.st().rest()
            &&& r.st().far() == Some(furthest(h.st().far(), e))
        }
    }
}

// the two halves of choice_step, so that a failed obligation is charged to the property whose sentence it is:
// what is returned and where the cursor stands (C01, C02) ...
pub open spec fn choice_step_val<'a, T>(h: ChoiceHelper<'a, T>, o: ParseResult<'a, T>, r: ChoiceHelper<'a, T>) -> bool {
    &&& r.st().idx() == h.st().idx()
    &&& r.st().rest() == h.st().rest()
    &&& match o { Ok(k) => r.res() == Some(k), Err(e) => r.res().is_none() }
}
// ... and what is recorded as the furthest error (C10). The clause labelled LINK states the two for the same outcome
// (it is what the n-ary choice theorem consumes); it fails only if one of the halves does.
pub open spec fn choice_step_err<'a, T>(h: ChoiceHelper<'a, T>, o: ParseResult<'a, T>, r: ChoiceHelper<'a, T>) -> bool {
    match o { Ok(k) => r.st().far() == h.st().far(), Err(e) => r.st().far() == Some(furthest(h.st().far(), e)) }
}

// ---- more assumed std specifications ----
pub open spec fn is_ws_byte(b: u8) -> bool {
    b == 0x20 || b == 0x09 || b == 0x0A || b == 0x0C || b == 0x0D
}
pub assume_specification[u8::is_ascii_whitespace](b: &u8) -> (r: bool)
    ensures r == is_ws_byte(*b);

pub open spec fn lower_byte(b: u8) -> u8 {
    if 0x41 <= b <= 0x5A { (b + 32) as u8 } else { b }
}
pub assume_specification[u8::to_ascii_lowercase](b: &u8) -> (r: u8)
    ensures r == lower_byte(*b);

pub assume_specification[char::is_ascii](c: &char) -> (r: bool)
    ensures r == ((*c as u32) <= 0x7f);

// str::starts_with is generic over the unstable Pattern trait: one uninterpreted predicate,
// one axiom per pattern type the runtime uses (documented behaviour of str::starts_with).
pub uninterp spec fn pat_is_prefix<P: core::str::pattern::Pattern>(s: &str, p: P) -> bool;

pub assume_specification<P: core::str::pattern::Pattern>[str::starts_with::<P>](s: &str, p: P) -> (r: bool)
    ensures r == pat_is_prefix::<P>(s, p);

// ---- matcher vocabulary ----
pub open spec fn ws_prefix_len(b: Seq<u8>) -> int
    decreases b.len()
{
    if b.len() > 0 && is_ws_byte(b[0]) { 1 + ws_prefix_len(b.subrange(1, b.len() as int)) } else { 0 }
}

pub open spec fn char_len(c: char) -> int { encode_scalar(c as u32).len() as int }

// result of a terminal matcher that consumed n bytes and returned v
pub open spec fn matched<'a, T>(state: ParseState<'a>, r: ParseResult<'a, T>, v: T, n: int) -> bool {
    r matches Ok(ok) && ok.result == v && state.moved(ok.state, n) && ok.state.inv()
}

// result of a terminal matcher that failed with its own specifics at the current offset
pub open spec fn failed<'a, T>(state: ParseState<'a>, r: ParseResult<'a, T>, sp: ParseErrorSpecifics) -> bool {
    r matches Err(e) && e == furthest(state.far(), state.own_error(sp))
}

// the error-content half of `failed` (C10's sentence); together with `r is Err` (C01's sentence) it is `failed`
pub open spec fn failed_if_err<'a, T>(state: ParseState<'a>, r: ParseResult<'a, T>, sp: ParseErrorSpecifics) -> bool {
    r matches Err(e) ==> e == furthest(state.far(), state.own_error(sp))
}

pub open spec fn is_ascii_bytes(b: Seq<u8>) -> bool { forall|i: int| 0 <= i < b.len() ==> #[trigger] b[i] < 0x80 }

// case-insensitive literal match as the syntax reference defines it: the lower-cased ASCII literal
// equals the byte-wise ASCII-lower-cased input prefix of the same length
pub open spec fn istr_matches(input: Seq<u8>, lit: Seq<u8>) -> bool {
    lit.len() <= input.len() && forall|i: int| 0 <= i < lit.len() ==> lower_byte(#[trigger] input[i]) == lit[i]
}

// ---- library lemmas (proved unless marked axiom) ----
pub mod lib {
    use super::*;

    // trusted: a str is never longer than usize::MAX bytes (Rust guarantees <= isize::MAX)
    pub broadcast axiom fn axiom_str_len_bound(s: &str)
        ensures #[trigger] s.spec_bytes().len() <= usize::MAX;

    // trusted: documented behaviour of str::starts_with for the two pattern types the runtime uses
    pub broadcast axiom fn axiom_starts_with_str(s: &str, p: &'static str)
        ensures #[trigger] pat_is_prefix::<&'static str>(s, p) == p.spec_bytes().is_prefix_of(s.spec_bytes());

    pub broadcast axiom fn axiom_starts_with_char(s: &str, p: char)
        ensures #[trigger] pat_is_prefix::<char>(s, p) == (s@.len() > 0 && s@[0] == p);

    pub broadcast proof fn lemma_str_bytes_valid(s: &str)
        ensures
            valid_utf8(#[trigger] s.spec_bytes()),
            is_char_boundary(s.spec_bytes(), 0),
            is_char_boundary(s.spec_bytes(), s.spec_bytes().len() as int),
    {
        encode_utf8_valid_utf8(s@);
        is_char_boundary_start_end_of_seq(s.spec_bytes());
    }


    // encode_scalar: width-1 scalars are their own single byte; wider scalars start with a byte >= 0xC0
    pub proof fn lemma_encode_scalar_first_byte(v: u32)
        requires is_scalar(v),
        ensures
            encode_scalar(v).len() >= 1,
            encode_scalar(v).len() <= 4,
            v <= 0x7f ==> (encode_scalar(v).len() == 1 && encode_scalar(v)[0] == v as u8),
            v > 0x7f ==> encode_scalar(v)[0] >= 0xC0,
    {
        if has_width_1_encoding(v) {
            assert(((v & 0x7f) as u8) == v as u8 && (v & 0x7f) == v) by (bit_vector) requires v <= 127;
        } else if has_width_2_encoding(v) {
            assert((0xC0u8 | (((v >> 6) & 0x1f) as u8)) >= 0xC0u8) by (bit_vector);
        } else if has_width_3_encoding(v) {
            assert((0xE0u8 | (((v >> 12) & 0x0f) as u8)) >= 0xC0u8) by (bit_vector);
        } else {
            assert((0xF0u8 | (((v >> 18) & 0x07) as u8)) >= 0xC0u8) by (bit_vector);
        }
    }

    // first character of a non-empty str: its encoding is a prefix of the bytes, and its length is a boundary
    pub broadcast proof fn lemma_first_char(s: &str)
        requires s@.len() > 0,
        ensures
            #![trigger s@.len(), s.spec_bytes()]
            s.spec_bytes() =~= encode_scalar(s@[0] as u32) + encode_utf8(s@.drop_first()),
            1 <= char_len(s@[0]) <= 4,
            char_len(s@[0]) <= s.spec_bytes().len(),
            is_char_boundary(s.spec_bytes(), char_len(s@[0])),
            (s@[0] as u32) <= 0x7f <==> s.spec_bytes()[0] < 0x80,
            (s@[0] as u32) <= 0x7f ==> (char_len(s@[0]) == 1 && s.spec_bytes()[0] == s@[0] as u8),
    {
        let b = s.spec_bytes();
        lemma_encode_scalar_first_byte(s@[0] as u32);
        encode_utf8_first_scalar(s@);
        encode_utf8_valid_utf8(s@);
        assert(b =~= encode_scalar(s@[0] as u32) + encode_utf8(s@.drop_first()));
        assert(pop_first_scalar(b) =~= encode_utf8(s@.drop_first()));
        encode_utf8_valid_utf8(s@.drop_first());
        is_char_boundary_start_end_of_seq(pop_first_scalar(b));
    }

    pub broadcast proof fn lemma_empty_iff(s: &str)
        ensures #![trigger s@.len(), s.spec_bytes()] (s@.len() == 0) <==> (s.spec_bytes().len() == 0),
    {
        if s@.len() > 0 { lemma_first_char(s); }
    }

    // the str that remains after the first character holds the remaining characters
    pub broadcast proof fn lemma_rest_chars(s: &str, t: &str)
        requires
            s@.len() > 0,
            #[trigger] t.spec_bytes() =~= #[trigger] s.spec_bytes().subrange(char_len(s@[0]), s.spec_bytes().len() as int),
        ensures t@ =~= s@.drop_first(),
    {
        lemma_first_char(s);
        assert(t.spec_bytes() =~= encode_utf8(s@.drop_first()));
        encode_utf8_decode_utf8(t@);
        encode_utf8_decode_utf8(s@.drop_first());
    }

    // after an ASCII first byte comes a boundary
    pub broadcast proof fn lemma_ascii_first_boundary(b: Seq<u8>)
        requires valid_utf8(b), b.len() > 0, b[0] < 0x80,
        ensures #[trigger] is_char_boundary(b, 1),
    {
        reveal_with_fuel(is_char_boundary, 2);
        assert(valid_first_scalar(b));
        assert(length_of_first_scalar(b) == 1);
    }

    pub broadcast proof fn lemma_moved_trans<'a>(a: ParseState<'a>, b: ParseState<'a>, c: ParseState<'a>, n: int, m: int)
        requires #[trigger] a.moved(b, n), #[trigger] b.moved(c, m),
        ensures a.moved(c, n + m),
    {
        lemma_str_bytes_valid(a.rest());
        assert(b.bytes() =~= a.bytes().subrange(n, a.bytes().len() as int));
        lemma_boundary_compose(a.bytes(), n, m);
    }

    pub broadcast proof fn lemma_moved_any_trans<'a>(a: ParseState<'a>, b: ParseState<'a>, c: ParseState<'a>, n: int, m: int)
        requires #[trigger] a.moved_any_far(b, n), #[trigger] b.moved_any_far(c, m),
        ensures a.moved_any_far(c, n + m),
    {
        lemma_str_bytes_valid(a.rest());
        assert(b.bytes() =~= a.bytes().subrange(n, a.bytes().len() as int));
        lemma_boundary_compose(a.bytes(), n, m);
    }

    pub broadcast proof fn lemma_moved_is_moved_any<'a>(a: ParseState<'a>, b: ParseState<'a>, n: int)
        requires #[trigger] a.moved(b, n),
        ensures a.moved_any_far(b, n),
    {
    }

    // boundaries compose: a boundary of the suffix at a boundary is a boundary of the whole
    pub proof fn lemma_boundary_compose(b: Seq<u8>, i: int, n: int)
        requires
            valid_utf8(b), 0 <= i <= b.len(), is_char_boundary(b, i),
            0 <= n <= b.len() - i, is_char_boundary(b.subrange(i, b.len() as int), n),
        ensures is_char_boundary(b, i + n),
    {
        let t = b.subrange(i, b.len() as int);
        valid_utf8_split(b, i);
        if i + n == b.len() {
            is_char_boundary_start_end_of_seq(b);
        } else {
            is_char_boundary_iff_not_is_continuation_byte(b, i + n);
            is_char_boundary_iff_not_is_continuation_byte(t, n);
            assert(t[n] == b[i + n]);
        }
    }

    // a str that is a byte prefix of another str ends on a boundary of it
    pub broadcast proof fn lemma_prefix_boundary(p: &str, s: &str)
        requires #[trigger] p.spec_bytes().is_prefix_of(#[trigger] s.spec_bytes()),
        ensures is_char_boundary(s.spec_bytes(), p.spec_bytes().len() as int),
    {
        let b = s.spec_bytes();
        let n = p.spec_bytes().len() as int;
        encode_utf8_valid_utf8(s@);
        encode_utf8_valid_utf8(p@);
        if n == b.len() {
            is_char_boundary_start_end_of_seq(b);
        } else {
            // the byte after the prefix cannot be a continuation byte: otherwise the prefix would end
            // inside a scalar, contradicting valid_utf8(prefix)
            lemma_valid_prefix_boundary(b, n);
        }
    }

    // if b and b[..n] are both valid UTF-8 then n is a boundary of b
    pub proof fn lemma_valid_prefix_boundary(b: Seq<u8>, n: int)
        requires valid_utf8(b), 0 <= n <= b.len(), valid_utf8(b.subrange(0, n)),
        ensures is_char_boundary(b, n),
        decreases b.len(),
    {
        if n == 0 {
        } else {
            let p = b.subrange(0, n);
            assert(p[0] == b[0]);
            // the first scalar of p and of b start with the same leading byte, so have the same length,
            // and that length fits in p because p is valid
            let l = length_of_first_scalar(b);
            assert(valid_first_scalar(p));
            assert(valid_first_scalar(b));
            assert(length_of_first_scalar(p) == l);
            assert(l <= n);
            let b2 = pop_first_scalar(b);
            let p2 = pop_first_scalar(p);
            assert(p2 =~= b2.subrange(0, n - l));
            lemma_valid_prefix_boundary(b2, n - l);
        }
    }

    pub broadcast group group_lib {
        axiom_str_len_bound,
        lemma_str_bytes_valid,
        lemma_first_char,
        lemma_empty_iff,
        lemma_rest_chars,
        lemma_ascii_first_boundary,
        lemma_moved_trans,
        lemma_moved_any_trans,
        lemma_moved_is_moved_any,
        lemma_prefix_boundary,
        axiom_starts_with_str,
        axiom_starts_with_char,
    }
}

impl IndentedTracer {
    pub closed spec fn level(&self) -> usize { self.indentation_level }
}
