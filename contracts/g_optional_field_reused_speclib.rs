// reference semantics of  R = [a:A b:B] a:A  over the uninterpreted operands: the field `a` of the multi-field optional occurs
// again after it, so it is a Vec at rule level (one or two values), `b` stays an Option
pub open spec fn seq_ab(x: Seq<u8>) -> Option<(u16, u16, int)> {
    match op_a(x) {
        Some((va, na)) => match op_b(rest_after(x, na)) {
            Some((vb, nb)) => Some((va, vb, na + nb)),
            None => None,
        },
        None => None,
    }
}
pub open spec fn opt_len(x: Seq<u8>) -> int { match seq_ab(x) { Some((va, vb, n)) => n, None => 0 } }
pub open spec fn r_ok(x: Seq<u8>) -> bool { op_a(rest_after(x, opt_len(x))) is Some }
