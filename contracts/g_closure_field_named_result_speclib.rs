// reference semantics of  R = {result:A} [b:B] $  over the uninterpreted operands
// greedy repetition of A; by C01's premise a closure body that succeeds consumes at least one byte
pub open spec fn a_consumes() -> bool { forall|b: Seq<u8>| (#[trigger] op_a(b)) matches Some((v, n)) ==> n > 0 }
pub open spec fn rep_a(b: Seq<u8>) -> (Seq<u16>, int)
    decreases b.len()
{
    match op_a(b) {
        Some((v, n)) => if 0 < n <= b.len() {
            let r = rep_a(rest_after(b, n));
            (seq![v] + r.0, n + r.1)
        } else { (Seq::empty(), 0) },
        None => (Seq::empty(), 0),
    }
}
pub open spec fn after_a(b: Seq<u8>) -> Seq<u8> { rest_after(b, rep_a(b).1) }
// the optional never fails: it consumes what B consumes where the repetition stopped, or nothing
pub open spec fn b_len(b: Seq<u8>) -> int { match op_b(after_a(b)) { Some((v, n)) => n, None => 0 } }
pub open spec fn b_val(b: Seq<u8>) -> Option<u16> { match op_b(after_a(b)) { Some((v, n)) => Some(v), None => None } }
// `$`: the rule matches exactly when nothing is left after the repetition and the optional
pub open spec fn r_ok(b: Seq<u8>) -> bool { rep_a(b).1 + b_len(b) == b.len() }
