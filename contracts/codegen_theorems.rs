pub mod thm {
    use super::*;

    // C03: the choice combination of arities is the lattice join: commutative, idempotent, monotone, and
    // exactly the documented mapping (plain / Option / Vec)
    pub proof fn thm_C03_join_lattice(a: Arity, b: Arity, c: Arity)
        ensures
            arity_join(a, b) == arity_join(b, a),
            arity_join(a, a) == a,
            arity_join(a, arity_join(b, c)) == arity_join(arity_join(a, b), c),
            arity_rank(arity_join(a, b)) >= arity_rank(a),
            arity_join(Arity::One, Arity::One) == Arity::One,
            arity_join(Arity::One, Arity::Optional) == Arity::Optional,
            arity_join(Arity::Optional, Arity::Multiple) == Arity::Multiple,
            arity_join(Arity::One, Arity::Multiple) == Arity::Multiple,
    {
    }

    // C12: a \xXX escape denotes a value below 256; a \u escape with 1..6 hex digits a value below 2^24
    pub proof fn thm_C12_escape_ranges(h: HexaEscape, u: Utf8Escape)
        requires
            is_hex(h.c1), is_hex(h.c2),
            is_hex(u.c1), opt_is_hex(u.c2), opt_is_hex(u.c3), opt_is_hex(u.c4), opt_is_hex(u.c5), opt_is_hex(u.c6),
        ensures
            0 <= 16 * hexval(h.c1) + hexval(h.c2) <= 255,
            0 <= utf8_escape_value(u) <= 0xFFFFFF,
    {
        broadcast use lib::group_lib;
    }
}

pub mod thm2 {
    use super::*;
    // C12: hexval is the documented digit value (spot values pin the table down at both ends of each range)
    pub proof fn thm_C12_hexval_table()
        ensures
            hexval('0') == 0, hexval('9') == 9, hexval('a') == 10, hexval('f') == 15, hexval('A') == 10, hexval('F') == 15,
            !is_hex('g'), !is_hex('G'), !is_hex('/'), !is_hex(':'), !is_hex('@'), !is_hex('`'),
    {
        reveal(hexval);
    }
}
