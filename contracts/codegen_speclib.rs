// ---------------------------------------------------------------------------------------------
// speclib for the generator's pure functions (arity table, escape decoders)
// ---------------------------------------------------------------------------------------------
pub mod lib {
    use super::*;
    // hexval is opaque in the function proofs; this is all they need to know about it
    pub broadcast proof fn lemma_hexval_bound(c: char)
        ensures -1 <= #[trigger] hexval(c) <= 15,
    {
        reveal(hexval);
    }
    pub broadcast group group_lib { lemma_hexval_bound }
}

// ---- arity lattice: One < Optional < Multiple ----
pub open spec fn arity_rank(a: Arity) -> int {
    match a { Arity::One => 0, Arity::Optional => 1, Arity::Multiple => 2 }
}
pub open spec fn arity_join(l: Arity, r: Arity) -> Arity {
    if arity_rank(l) >= arity_rank(r) { l } else { r }
}

// ---- hex digits ----
#[verifier::opaque]
pub open spec fn hexval(c: char) -> int {
    if '0' <= c <= '9' { c as int - '0' as int }
    else if 'a' <= c <= 'f' { c as int - 'a' as int + 10 }
    else if 'A' <= c <= 'F' { c as int - 'A' as int + 10 }
    else { -1 }
}
pub open spec fn is_hex(c: char) -> bool { hexval(c) >= 0 }
pub open spec fn opt_is_hex(c: Option<char>) -> bool { c matches Some(x) ==> is_hex(x) }
pub open spec fn hex_push(acc: int, c: Option<char>) -> int {
    match c { Some(x) => acc * 16 + hexval(x), None => acc }
}
// the number the up-to-six digits of a \u / \U / \u{..} escape denote, most significant first
pub open spec fn utf8_escape_value(e: Utf8Escape) -> int {
    hex_push(hex_push(hex_push(hex_push(hex_push(hexval(e.c1), e.c2), e.c3), e.c4), e.c5), e.c6)
}
pub open spec fn is_scalar_value(v: int) -> bool { 0 <= v <= 0xD7FF || 0xE000 <= v <= 0x10FFFF }

// ---- assumed std specifications (documented behaviour) ----
pub assume_specification[char::to_digit](c: char, radix: u32) -> (r: Option<u32>)
    ensures radix == 16 ==> (r == if hexval(c) >= 0 { Some(hexval(c) as u32) } else { None::<u32> });

pub assume_specification[char::from_u32](v: u32) -> (r: Option<char>)
    ensures r == if is_scalar_value(v as int) { Some(v as char) } else { None::<char> };

pub assume_specification[<char as core::convert::From<u8>>::from](v: u8) -> (r: char)
    ensures r as u32 == v as u32;

// X6: anyhow::Error is replaced by an opaque type; the message is dropped, the control flow kept
pub struct AnyhowError;
#[verifier::external_body]
pub fn anyhow_error() -> AnyhowError { AnyhowError }
