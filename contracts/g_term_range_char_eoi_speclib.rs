// reference semantics of  R = 'b'..'d' k:char ['\x65'] $  (no abstract operands: terminals only). The escape \x65 denotes 'e'.
pub open spec fn r_ok(cs: Seq<char>) -> bool {
    &&& cs.len() >= 2
    &&& 'b' <= cs[0] <= 'd'
    &&& (cs.len() == 2 || (cs.len() == 3 && cs[2] == 'e'))
}
