// reference semantics of  R = {a:A {b:B}}+ $  over the uninterpreted operands (a closure inside a closure)
// C01's premise for both closures: a body that succeeds consumes at least one byte
pub open spec fn ops_consume() -> bool {
    &&& forall|x: Seq<u8>| (#[trigger] op_a(x)) matches Some((v, n)) ==> n > 0
    &&& forall|x: Seq<u8>| (#[trigger] op_b(x)) matches Some((v, n)) ==> n > 0
}
pub open spec fn rep_b(x: Seq<u8>) -> (Seq<u16>, int)
    decreases x.len()
{
    match op_b(x) {
        Some((v, n)) => if 0 < n <= x.len() { let r = rep_b(rest_after(x, n)); (seq![v] + r.0, n + r.1) } else { (Seq::empty(), 0) },
        None => (Seq::empty(), 0),
    }
}
// one iteration of the outer closure: a:A {b:B}  (the inner closure never fails)
pub open spec fn body(x: Seq<u8>) -> Option<(u16, Seq<u16>, int)> {
    match op_a(x) {
        Some((va, na)) => { let r = rep_b(rest_after(x, na)); Some((va, r.0, na + r.1)) },
        None => None,
    }
}
pub open spec fn rep(x: Seq<u8>) -> (Seq<u16>, Seq<u16>, int)
    decreases x.len()
{
    match body(x) {
        Some((va, bs, n)) => if 0 < n <= x.len() {
            let r = rep(rest_after(x, n));
            (seq![va] + r.0, bs + r.1, n + r.2)
        } else { (Seq::empty(), Seq::empty(), 0) },
        None => (Seq::empty(), Seq::empty(), 0),
    }
}
// {..}+ needs one iteration, `$` needs everything consumed
pub open spec fn r_ok(x: Seq<u8>) -> bool { rep(x).2 > 0 && rep(x).2 == x.len() }
pub mod gcc {
    use super::*;
    pub proof fn lemma_rep_b_nonneg(x: Seq<u8>)
        ensures rep_b(x).1 >= 0,
        decreases x.len(),
    {
        match op_b(x) {
            Some((v, n)) => { if 0 < n <= x.len() { lemma_rep_b_nonneg(rest_after(x, n)); } },
            None => {},
        }
    }
    // an iteration of the outer closure consumes because its first part does
    pub proof fn lemma_body_consumes(x: Seq<u8>)
        requires ops_consume(),
        ensures body(x) matches Some((va, bs, n)) ==> n > 0,
    {
        match op_a(x) {
            Some((va, na)) => { lemma_rep_b_nonneg(rest_after(x, na)); },
            None => {},
        }
    }
}
