// reference semantics of  R = a:A [b:*B {c:*C}] $  over the uninterpreted operands. ONE definition for the code generated for
// R = a:A [>I] $; I = b:*B {c:*C}  (schema include_boxed: boxed fields keep their Box through the include) and for its
// differential twin with the body written in place.
pub open spec fn c_consumes() -> bool { forall|x: Seq<u8>| (#[trigger] op_c(x)) matches Some((v, n)) ==> n > 0 }
pub open spec fn rep_c(x: Seq<u8>) -> (Seq<u16>, int)
    decreases x.len()
{
    match op_c(x) {
        Some((v, n)) => if 0 < n <= x.len() { let r = rep_c(rest_after(x, n)); (seq![v] + r.0, n + r.1) } else { (Seq::empty(), 0) },
        None => (Seq::empty(), 0),
    }
}
pub open spec fn unboxed(v: Seq<Box<u16>>) -> Seq<u16> { Seq::new(v.len(), |i: int| *v[i]) }
// the optional's body  b:*B {c:*C}
pub open spec fn body(x: Seq<u8>) -> Option<(u16, Seq<u16>, int)> {
    match op_b(x) {
        Some((vb, nb)) => { let r = rep_c(rest_after(x, nb)); Some((vb, r.0, nb + r.1)) },
        None => None,
    }
}
pub open spec fn opt_len(x: Seq<u8>) -> int { match body(x) { Some((vb, cs, n)) => n, None => 0 } }
pub open spec fn after_a(x: Seq<u8>) -> Seq<u8> { match op_a(x) { Some((va, na)) => rest_after(x, na), None => x } }
pub open spec fn r_ok(x: Seq<u8>) -> bool {
    op_a(x) matches Some((va, na)) && na + opt_len(rest_after(x, na)) == x.len()
}
