// reference semantics of  R = p:P [c:C] ;  @position P = a:A !B  in SKIPPING rules, over the uninterpreted operands: before
// every operand - also before the B the lookahead tries - the maximal run of ASCII white space is skipped; a lookahead
// consumes nothing, so P ends where a:A ended, NOT after the blanks the lookahead looked past
// @broadcast glib::lemma_same_place
pub open spec fn tok(x: Seq<u8>, o: Option<(u16, int)>) -> Option<(u16, int)> {
    match o { Some((v, n)) => Some((v, ws_prefix_len(x) + n)), None => None }
}
pub open spec fn skipped(x: Seq<u8>) -> Seq<u8> { rest_after(x, ws_prefix_len(x)) }
pub open spec fn tok_a(x: Seq<u8>) -> Option<(u16, int)> { tok(x, op_a(skipped(x))) }
pub open spec fn tok_b(x: Seq<u8>) -> Option<(u16, int)> { tok(x, op_b(skipped(x))) }
pub open spec fn tok_c(x: Seq<u8>) -> Option<(u16, int)> { tok(x, op_c(skipped(x))) }
pub open spec fn p_body(x: Seq<u8>) -> Option<(u16, int)> {
    match tok_a(x) {
        Some((va, na)) => if tok_b(rest_after(x, na)) is None { Some((va, na)) } else { None },
        None => None,
    }
}
