// reference semantics of  R = !(A !B) c:C  over the uninterpreted operands (a negative lookahead inside a negative lookahead)
// A followed by "not B"
pub open spec fn a_notb(x: Seq<u8>) -> bool {
    op_a(x) matches Some((va, na)) && op_b(rest_after(x, na)) is None
}
