// reference semantics of  R = a:*A [b:*B] {c:*C}  over the uninterpreted operands: `*` puts the value in a Box and changes nothing else
pub open spec fn c_consumes() -> bool { forall|x: Seq<u8>| (#[trigger] op_c(x)) matches Some((v, n)) ==> n > 0 }
pub open spec fn rep_c(x: Seq<u8>) -> (Seq<u16>, int)
    decreases x.len()
{
    match op_c(x) {
        Some((v, n)) => if 0 < n <= x.len() { let r = rep_c(rest_after(x, n)); (seq![v] + r.0, n + r.1) } else { (Seq::empty(), 0) },
        None => (Seq::empty(), 0),
    }
}
// the values inside a vector of boxes
pub open spec fn unboxed(v: Seq<Box<u16>>) -> Seq<u16> { Seq::new(v.len(), |i: int| *v[i]) }
pub open spec fn after_a(x: Seq<u8>) -> Seq<u8> { match op_a(x) { Some((va, na)) => rest_after(x, na), None => x } }
pub open spec fn b_len(x: Seq<u8>) -> int { match op_b(after_a(x)) { Some((v, n)) => n, None => 0 } }
pub open spec fn after_b(x: Seq<u8>) -> Seq<u8> { rest_after(after_a(x), b_len(x)) }
