// reference semantics of  R = a:A a:*A : one field, two occurrences, one of them boxed -> Vec<Box<A>> (the boxed flag is sticky)
pub open spec fn aa(x: Seq<u8>) -> Option<(u16, u16, int)> {
    match op_a(x) {
        Some((v1, n1)) => match op_a(rest_after(x, n1)) {
            Some((v2, n2)) => Some((v1, v2, n1 + n2)),
            None => None,
        },
        None => None,
    }
}
