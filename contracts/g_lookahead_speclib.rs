// reference semantics of  R = !A b:B &C [c:C]  over the uninterpreted operands
pub open spec fn la_matches(b: Seq<u8>) -> bool {
    op_a(b) is None && (op_b(b) matches Some((vb, nb)) && op_c(rest_after(b, nb)) is Some)
}
pub open spec fn la_value(b: Seq<u8>) -> (u16, int) {
    match op_b(b) { Some((vb, nb)) => (vb, nb), None => (0u16, 0int) }
}
