// reference semantics of  @check(chk_char0) @char Rg = 'b'..'d';  @check(chk_char0) @char Lt = 'x';  (single-arm classes)
pub open spec fn rg_ok(c: char) -> bool { ('b' <= c <= 'd') && chk_spec0(c) }
pub open spec fn lt_ok(c: char) -> bool { c == 'x' && chk_spec0(c) }
