// reference semantics of  R = (a:A c:C a:A) $  over the uninterpreted operands. ONE definition for the code generated for
// R = >P $; P = >I c:C >I; I = a:A  (schema include_diamond: the same rule included twice below an outer include) and for its
// differential twin with the bodies written in place.
pub open spec fn aca(x: Seq<u8>) -> Option<(u16, u16, u16, int)> {
    match op_a(x) {
        Some((v1, n1)) => match op_c(rest_after(x, n1)) {
            Some((vc, nc)) => match op_a(rest_after(x, n1 + nc)) {
                Some((v2, n2)) => Some((v1, vc, v2, n1 + nc + n2)),
                None => None,
            },
            None => None,
        },
        None => None,
    }
}
pub open spec fn r_val(x: Seq<u8>) -> Option<(u16, u16, u16)> {
    match aca(x) { Some((v1, vc, v2, n)) => if n == x.len() { Some((v1, vc, v2)) } else { None }, None => None }
}
