// reference semantics of  R = a:A [b:B] $  over the uninterpreted operands (@no_skip_ws: nothing is skipped or trimmed)
pub open spec fn b_at(x: Seq<u8>) -> Seq<u8> { match op_a(x) { Some((va, na)) => rest_after(x, na), None => x } }
pub open spec fn b_len(x: Seq<u8>) -> int { match op_b(b_at(x)) { Some((v, n)) => n, None => 0 } }
pub open spec fn b_val(x: Seq<u8>) -> Option<u16> { match op_b(b_at(x)) { Some((v, n)) => Some(v), None => None } }
pub open spec fn r_ok(x: Seq<u8>) -> bool { op_a(x) matches Some((va, na)) && na + b_len(x) == x.len() }
