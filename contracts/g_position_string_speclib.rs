// reference semantics of  @no_skip_ws @position @string P = A [B]  over the uninterpreted operands: P matches A then,
// optionally, B; it consumes that many bytes; its string is exactly the consumed text, its range exactly that span
// @broadcast glib::lemma_same_place
pub open spec fn p_len(x: Seq<u8>) -> Option<int> {
    match op_a(x) {
        Some((va, na)) => match op_b(rest_after(x, na)) {
            Some((vb, nb)) => Some(na + nb),
            None => Some(na),
        },
        None => None,
    }
}
