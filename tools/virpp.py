#!/usr/bin/env python3
"""Tiny pretty-printer for Verus --log vir (compact+no_span+no_type) to read vstd specs."""
import sys,re
def tokenize(s):
    return re.findall(r'"(?:[^"\\]|\\.)*"|\(|\)|[^\s()]+', s)
def parse(tokens):
    stack=[[]]
    for t in tokens:
        if t=='(':
            stack.append([])
        elif t==')':
            x=stack.pop(); stack[-1].append(x)
        else:
            stack[-1].append(t)
    return stack[0]
def kw(l,k):
    for i,x in enumerate(l):
        if x==k and i+1<len(l): return l[i+1]
    return None
def path(x):
    # (Fun :path a::b)
    if isinstance(x,list):
        p=kw(x,':path')
        if p: return p
    return str(x)
def ex(e):
    if not isinstance(e,list): return str(e)
    if not e: return '()'
    h=e[0]
    if h=='>' or h=='@@': return ex(e[1:]) if len(e)>2 else ex(e[1])
    if h=='Call':
        tgt=kw(e,':target'); args=kw(e,':args') or []
        name='?'
        if isinstance(tgt,list):
            for x in tgt:
                if isinstance(x,list) and x and x[0]=='Fun': name=path(x); break
        return name.split('::')[-1]+'('+', '.join(ex(a) for a in args)+')'
    if h=='ReadPlace': return ex(e[1])
    if h=='Place': return ex(e[-1]) if len(e)>2 else ex(e[1])
    if h=='Local': return ex(e[1])
    if h=='VarIdent': return e[1].strip('"')
    if h=='Var': return ex(e[1])
    if h=='Const': return ' '.join(ex(x) for x in e[1:])
    if h=='Binary':
        return '('+ex(e[2])+' '+ex(e[1])+' '+ex(e[3])+')'
    if h=='Logical': return '('+(' '+ex(e[1])+' ').join(ex(x) for x in e[2:])+')'
    if h=='Unary': return ex(e[1])+'['+ex(e[2])+']'
    if h=='UnaryOpr': return ex(e[1])+'['+ex(e[2])+']'
    if h=='If': return 'if '+ex(e[1])+' {'+ex(e[2])+'} else {'+(ex(e[3]) if len(e)>3 else '')+'}'
    if h=='Block': return ' '.join(ex(x) for x in e[1:])
    if h=='Quant': return 'Q'+' '.join(ex(x) for x in e[1:])
    return '('+' '.join(ex(x) for x in e)+')'
def main():
    src=open(sys.argv[1]).read()
    names=sys.argv[2:]
    # split top-level (Function ...) forms
    i=0
    for m in re.finditer(r'^\(Function\n', src, re.M):
        pass
    toks=tokenize(re.sub(r'^;;.*$','',src,flags=re.M))
    forms=parse(toks)
    for f in forms:
        if isinstance(f,list) and f and f[0]=='Function':
            nm=path(f[1]) if isinstance(f[1],list) else '?'
            if names and not any(n in nm for n in names): continue
            print('==',nm, 'mode',kw(f,':mode'))
            ps=kw(f,':params') or []
            print('  params:', [ex(kw(p,':name')) for p in ps if isinstance(p,list)])
            for k in (':require',':ensure',':returns',':body'):
                v=kw(f,k)
                if v not in (None,[],'None'):
                    if k in (':require',':ensure') and isinstance(v,list):
                        for c in v: print('  ',k, ex(c))
                    else:
                        print('  ',k, ex(v)[:1500])
main()
