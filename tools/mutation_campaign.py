#!/usr/bin/env python3
"""First-order mutation campaign (a complement to the hand-written seeded changes, not part of any registered check).
  gen      <outdir>                  write one patch per mutant (single-token operator mutations of runtime/ and codegen/)
  filter   <outdir> <worktree> i/n   keep mutants that compile AND pass the existing test suite (shard i of n)
  run      <outdir> <repo-copy>      apply each survivor to the scratch worktree, run `./check ALL --repo <copy>` (evidence and replays redirected), undo
Scratch worktrees live outside /repo and /verif; /repo is restored after every mutant."""
import os, re, sys, json, subprocess, hashlib

FILES = ['runtime/src/state.rs', 'runtime/src/builtin_parsers.rs', 'runtime/src/choice_helper.rs', 'runtime/src/parse_result.rs',
         'runtime/src/trace.rs', 'runtime/src/error.rs',
         'codegen/src/rule.rs', 'codegen/src/sequence.rs', 'codegen/src/choice.rs', 'codegen/src/closure.rs', 'codegen/src/optional.rs',
         'codegen/src/lookahead.rs', 'codegen/src/field.rs', 'codegen/src/string.rs', 'codegen/src/include_rule.rs', 'codegen/src/common.rs',
         'codegen/src/char_rule.rs', 'codegen/src/extern_rule.rs', 'codegen/src/eoi.rs', 'codegen/src/misc.rs', 'codegen/src/grammar/mod.rs']

OPS = [
    (r' <= ', ' < '), (r' < ', ' <= '), (r' >= ', ' > '), (r' > ', ' >= '), (r' == ', ' != '), (r' != ', ' == '),
    (r' && ', ' || '), (r' \|\| ', ' && '),
    (r' \+ ', ' - '), (r' - ', ' + '), (r' \+= 1', ' += 0'), (r' -= 1', ' -= 0'), (r'\+ 1\b', '+ 0'),
    (r'\btrue\b', 'false'), (r'\bfalse\b', 'true'),
    (r'\bif !', 'if '), (r'\.is_none\(\)', '.is_some()'), (r'\.is_some\(\)', '.is_none()'), (r'\.is_ok\(\)', '.is_err()'),
    (r'\.is_empty\(\)', '.is_empty() == false'),
    (r'\.record_error\(err\)', ''), (r'state\.clone\(\)', 'state'),
    (r'CloneState::Yes', 'CloneState::No'), (r'CloneState::No', 'CloneState::Yes'),
    (r'Arity::Optional', 'Arity::One'), (r'Arity::Multiple', 'Arity::Optional'), (r'Arity::One', 'Arity::Optional'),
    (r'RecordPosition::Yes', 'RecordPosition::No'), (r'PublicType::Yes', 'PublicType::No'),
    (r'\.len\(\) == 1', '.len() <= 1'), (r'\.len\(\) > 1', '.len() >= 1'), (r'\.len\(\) <= 1', '.len() < 1'), (r'\.len\(\) < 2', '.len() < 3'),
    (r'skip_whitespace: false', 'skip_whitespace: true'), (r'\bbreak;', ''), (r'\.unwrap_or\(0\)', '.unwrap_or(1)'),
]

def sh(cmd, cwd=None, timeout=1800):
    p = subprocess.run(cmd, shell=True, cwd=cwd, capture_output=True, text=True, timeout=timeout, env=dict(os.environ, CARGO_NET_OFFLINE='true'))
    return p.returncode, p.stdout + p.stderr

def gen(outdir, repo='/repo'):
    os.makedirs(outdir, exist_ok=True)
    n = 0
    for f in FILES:
        lines = open(os.path.join(repo, f)).read().split('\n')
        for i, line in enumerate(lines):
            code = line.split('//')[0]
            if not code.strip() or code.strip().startswith(('#[', 'use ', '///', '*')): continue
            for pat, rep in OPS:
                for m in re.finditer(pat, code):
                    new = code[:m.start()] + rep + code[m.end():] + line[len(code):]
                    if new == line: continue
                    mutated = lines[:i] + [new] + lines[i + 1:]
                    mid = hashlib.md5(('%s:%d:%d:%s' % (f, i, m.start(), rep)).encode()).hexdigest()[:8]
                    d = os.path.join(outdir, 'm_' + mid)
                    os.makedirs(d, exist_ok=True)
                    open(os.path.join(d, 'file.txt'), 'w').write(f)
                    open(os.path.join(d, 'mutated.rs'), 'w').write('\n'.join(mutated))
                    json.dump({'file': f, 'line': i + 1, 'old': line.strip(), 'new': new.strip(), 'op': '%s -> %s' % (pat, rep)}, open(os.path.join(d, 'meta.json'), 'w'))
                    n += 1
    print('generated', n, 'mutants')

def filt(outdir, wt, shard):
    i, n = [int(x) for x in shard.split('/')]
    ms = sorted(d for d in os.listdir(outdir) if d.startswith('m_'))
    for k, d in enumerate(ms):
        if k % n != i: continue
        p = os.path.join(outdir, d)
        if os.path.exists(os.path.join(p, 'status.json')): continue
        f = open(os.path.join(p, 'file.txt')).read()
        sh('git checkout -q -- . ', cwd=wt)
        open(os.path.join(wt, f), 'w').write(open(os.path.join(p, 'mutated.rs')).read())
        st = {}
        rc, out = sh('cargo build --offline -p peginator -p peginator_codegen', cwd=wt)
        if rc != 0:
            st['status'] = 'compile-error'
        else:
            sh('find test/src -name grammar.rs -delete', cwd=wt)
            rc, out = sh('timeout -k 5 600 cargo test --workspace --no-fail-fast --offline', cwd=wt)   # a hanging test counts as killed
            st['status'] = 'survived' if rc == 0 and 'FAILED' not in out else 'killed-by-tests'
        rc, diff = sh('git diff', cwd=wt)
        open(os.path.join(p, 'patch.diff'), 'w').write(diff)
        json.dump(st, open(os.path.join(p, 'status.json'), 'w'))
        sh('git checkout -q -- . ', cwd=wt)
        print(d, st['status'], flush=True)

def run(outdir, REPO, shard='0/1'):
    si, sn = [int(x) for x in shard.split('/')]
    assert subprocess.run(['git', '-C', REPO, 'status', '--porcelain', '--untracked-files=no'], capture_output=True, text=True).stdout.strip() == '', REPO + ' not clean'
    for k, d in enumerate(sorted(os.listdir(outdir))):
        if k % sn != si: continue
        p = os.path.join(outdir, d)
        sp = os.path.join(p, 'status.json')
        if not os.path.exists(sp) or json.load(open(sp)).get('status') != 'survived': continue
        if os.path.exists(os.path.join(p, 'checks.json')): continue
        r = subprocess.run(['git', '-C', REPO, 'apply', os.path.join(p, 'patch.diff')], capture_output=True, text=True)
        if r.returncode != 0:
            print(json.dumps({'mutant': d, 'error': r.stderr[-200:]})); continue
        try:
            env = dict(os.environ, VERIF_EVIDENCE_DIR=os.path.join(outdir, '_evidence%d' % si), VERIF_REPLAY_DIR=os.path.join(p, 'replays'))
            c = subprocess.run(['./check', 'ALL', '--repo', REPO], cwd=os.environ.get('VERIF_ROOT', '/verif'), capture_output=True, text=True, timeout=7200, env=env)
            open(os.path.join(p, 'check.log'), 'w').write(c.stdout + c.stderr)
            viol = sorted(set(re.findall(r'^VIOLATION property=(C\d+)', c.stdout, re.M)))
            inc = sorted(set(re.findall(r'^INCONCLUSIVE property=(C\d+)', c.stdout, re.M)))
            res = {'mutant': d, 'meta': json.load(open(os.path.join(p, 'meta.json'))), 'exit': c.returncode, 'violations': viol, 'inconclusive': inc}
            json.dump(res, open(os.path.join(p, 'checks.json'), 'w'))
            print(json.dumps(res), flush=True)
        finally:
            subprocess.run(['git', '-C', REPO, 'checkout', '--', '.'])

if __name__ == '__main__':
    {'gen': lambda: gen(sys.argv[2]), 'filter': lambda: filt(sys.argv[2], sys.argv[3], sys.argv[4]), 'run': lambda: run(sys.argv[2], sys.argv[3], *(sys.argv[4:5]))}[sys.argv[1]]()
