#!/usr/bin/env python3
"""apply each seeded change to /repo, run the property's check, undo. usage: run_against_seeded.py <dir> [C01/A ...] [--all-props]"""
import os, sys, subprocess, json, glob, re
src = sys.argv[1]
args = [a for a in sys.argv[2:] if not a.startswith('--')]
allprops = '--all-props' in sys.argv
seeded_layout = os.path.exists(os.path.join(src, 'C01-A', 'patch.diff')) or any(os.path.exists(os.path.join(src, d, 'patch.diff')) for d in os.listdir(src))
if seeded_layout:
    specs = args or sorted(d for d in os.listdir(src) if os.path.exists(os.path.join(src, d, 'patch.diff')))
else:
    specs = args or sorted(os.path.relpath(p, src)[:-5] for p in glob.glob(os.path.join(src, 'C*', '[AB].diff')))
assert subprocess.run(['git', '-C', '/repo', 'status', '--porcelain', '--untracked-files=no'], capture_output=True, text=True).stdout.strip() == '', '/repo not clean'
for spec in specs:
    pid = spec.split('/')[0].split('-')[0]
    diff = os.path.join(src, spec, 'patch.diff') if seeded_layout else os.path.join(src, spec + '.diff')
    r = subprocess.run(['git', '-C', '/repo', 'apply', diff], capture_output=True, text=True)
    if r.returncode != 0:
        print(json.dumps({'mutant': spec, 'error': 'does not apply: ' + r.stderr[-200:]})); continue
    try:
        props = [pid] if not allprops else ['C01','C02','C03','C04','C05','C06','C07','C08','C09','C10','C11','C12','C13','C14','C19']
        res = {'mutant': spec, 'results': {}}
        for p in props:
            c = subprocess.run(['./check', p, '--tier', 'quick'], cwd='/verif', capture_output=True, text=True, timeout=3600)
            viol = re.findall(r'^VIOLATION .*$', c.stdout, re.M)
            inc = re.findall(r'^INCONCLUSIVE .*$', c.stdout, re.M)
            res['results'][p] = {'exit': c.returncode, 'violations': [v[:220] for v in viol][:4], 'inconclusive': [i[:200] for i in inc][:2]}
        print(json.dumps(res), flush=True)
    finally:
        subprocess.run(['git', '-C', '/repo', 'checkout', '--', '.'])
        subprocess.run(['git', '-C', '/repo', 'clean', '-fdq', '-e', 'target', '-e', 'Cargo.lock'])
