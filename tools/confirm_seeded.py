#!/usr/bin/env python3
"""Confirm a seeded change in its scratch worktree /tmp/seedwt/<ID> (never in /repo):
  1. reset the worktree to /repo's HEAD, install the demo, run it          -> must PASS
  2. apply the patch, regenerate test parsers, run the existing test suite -> must PASS
  3. run the demo again                                                    -> must FAIL
usage: confirm_seeded.py <src dir with C*/A.diff...> C01/A C01/B ...   prints one JSON line per mutant"""
import os, sys, subprocess, json, glob, shutil, re

SRC = sys.argv[1]
REPO_HEAD = subprocess.run(['git', '-C', '/repo', 'rev-parse', 'HEAD'], capture_output=True, text=True).stdout.strip()

def sh(cmd, cwd=None, timeout=1800):
    p = subprocess.run(cmd, shell=True, cwd=cwd, capture_output=True, text=True, timeout=timeout,
                       env=dict(os.environ, CARGO_NET_OFFLINE='true'))
    return p.returncode, (p.stdout + p.stderr)

def demo_cmd(pid, m, wt):
    d = os.path.join(SRC, pid, m + '_demo')
    files = sorted(os.listdir(d))
    rs = [f for f in files if f.endswith('.rs')]
    run = glob.glob(os.path.join(d, '**', 'run.sh'), recursive=True)
    top = os.path.join(SRC, pid, 'run_demo.sh')
    if os.path.exists(top):
        return 'sh %s %s' % (top, m), None
    if run:
        return 'sh %s %s' % (run[0], wt), None
    subdirs = [f for f in files if os.path.isdir(os.path.join(d, f))]
    if not rs and len(subdirs) == 1:
        # a test module directory (grammar.ebnf + mod.rs) for the test crate, optionally with a patch adding the `mod` line
        name = subdirs[0]
        patch = os.path.join(d, 'lib_rs.patch')
        add = ('git -C %s apply %s' % (wt, patch)) if os.path.exists(patch) else ("grep -q 'mod %s;' %s/test/src/lib.rs || echo 'mod %s;' >> %s/test/src/lib.rs" % (name, wt, name, wt))
        return ('rm -rf %s/test/src/%s && cp -r %s %s/test/src/ && (%s) && find %s/test/src -name grammar.rs -delete && cd %s && cargo test -p peginator_test --offline %s; rc=$?; '
                'rm -rf %s/test/src/%s; git -C %s checkout -- test/src/lib.rs; exit $rc') % (wt, name, os.path.join(d, name), wt, add, wt, wt, name, wt, name, wt), None
    if len(rs) == 1:
        name = rs[0][:-3]
        pkgdir, pkg = ('runtime', 'peginator') if pid == 'C11' else (('codegen', 'peginator_codegen') if pid == 'C12' and (m == 'A' or name.startswith('c12_')) and 'multi_check' not in name else ('macro', 'peginator_macro'))
        dst = os.path.join(wt, pkgdir, 'tests')
        return 'mkdir -p %s && cp %s %s/ && cd %s && cargo test -p %s --offline --test %s' % (dst, os.path.join(d, rs[0]), dst, wt, pkg, name), os.path.join(dst, rs[0])
    raise Exception('unknown demo layout for %s/%s: %s' % (pid, m, files))

def clean(wt):
    sh('git reset -q --hard %s && git clean -fdq -e target -e Cargo.lock' % REPO_HEAD, cwd=wt)
    sh('find test/src -name grammar.rs -delete', cwd=wt)
    shutil.copy('/repo/Cargo.lock', os.path.join(wt, 'Cargo.lock'))

def confirm(spec):
    pid, m = spec.split('/')
    wt = '/tmp/seedwt/' + dict(x.split('=') for x in os.environ.get('SEEDWT_MAP', '').split(',') if x).get(pid, pid)
    diff = os.path.join(SRC, pid, m + '.diff')
    res = {'mutant': spec, 'repo_head': REPO_HEAD}
    clean(wt)
    rc, out = sh('git apply --check %s' % diff, cwd=wt)
    res['applies'] = rc == 0
    if rc != 0:
        rc3, out3 = sh('git apply --3way --check %s' % diff, cwd=wt)
        res['applies_3way'] = rc3 == 0
        res['apply_error'] = out[-300:]
        if rc3 != 0:
            return res
    cmd, installed = demo_cmd(pid, m, wt)
    rc, out = sh(cmd, cwd=wt)
    res['demo_on_unchanged'] = 'pass' if rc == 0 else 'FAIL'
    res['demo_cmd'] = cmd
    if rc != 0: res['demo_unchanged_tail'] = out[-600:]
    clean(wt)
    rc, out = sh('git apply %s %s' % ('' if res['applies'] else '--3way', diff), cwd=wt)
    sh('find test/src -name grammar.rs -delete', cwd=wt)
    rc, out = sh('cargo test --workspace --no-fail-fast --offline', cwd=wt)
    passed = sum(int(x) for x in re.findall(r'test result: ok\. (\d+) passed', out))
    failed = re.findall(r'test result: FAILED', out)
    res['suite'] = 'pass' if rc == 0 and not failed else 'FAIL'
    res['suite_passed_tests'] = passed
    if rc != 0: res['suite_tail'] = out[-800:]
    rc, out = sh(cmd, cwd=wt)
    res['demo_on_changed'] = 'fail' if rc != 0 else 'PASS'
    res['demo_changed_tail'] = out[-400:] if rc != 0 else ''
    clean(wt)
    res['confirmed'] = res.get('demo_on_unchanged') == 'pass' and res['suite'] == 'pass' and res['demo_on_changed'] == 'fail'
    return res

for spec in sys.argv[2:]:
    try:
        r = confirm(spec)
    except Exception as e:
        r = {'mutant': spec, 'error': repr(e)}
    print(json.dumps(r), flush=True)
